#!/usr/bin/env python3
"""Render DESIGN.md section 11 (which checks catch which seeded changes) from seeded/*/meta.json and a seedtest log."""
import json, os, re, sys, glob
# usage: seed_table.py <round> <log> [<log> ...]   (only the seeded changes named in the logs are touched)
rnd = int(sys.argv[1])
res = {}
for line in [l for f in sys.argv[2:] for l in open(f)]:
    m = re.match(r"(\S+) (DONE|PATCH-FAILED) (.*)", line.strip())
    if not m:
        continue
    sid = os.path.basename(m.group(1).rstrip("/"))
    runs = {}
    for part in m.group(3).split(" | "):
        pm = re.match(r"(C\d+) rc=(-?\d+) (\d+)s sigs=(\[.*?\]) ", part + " ")
        if pm:
            runs[pm.group(1)] = (int(pm.group(2)), eval(pm.group(4)))
    res.setdefault(sid, {}).update(runs)
rows = []
for d in sorted(glob.glob("/verif/seeded/*/meta.json")):
    m = json.load(open(d))
    sid = m["id"]
    if m.get("round", 1) != rnd or (sid not in res and m.get("status") != "obsolete"):
        continue
    runs = res.get(sid, {})
    caught = ["%s (%s)" % (p, ", ".join("`%s`" % s for s in sig[:2])) for p, (rc, sig) in runs.items() if rc == 1]
    missed = [p for p, (rc, sig) in runs.items() if rc != 1]
    summ = (m.get("summary") or "").replace("\n", " ").replace("|", "/")
    needs = (m.get("needs") or "").replace("\n", " ").replace("|", "/")
    if m.get("status") == "obsolete":
        rows.append("| %s | %s | %s | *obsolete*: %s |" % (sid, summ[:230], needs[:200], m.get("obsolete_note", "")[:400]))
        json.dump(m, open(d, "w"), indent=1)
        continue
    rows.append("| %s | %s | %s | %s%s |" % (sid, summ[:230], needs[:200], "; ".join(caught) or "-", (" — **missed by** " + ",".join(missed)) if missed else ""))
    m["checks_run"] = {p: dict(exit=rc, signatures=sig) for p, (rc, sig) in runs.items()}
    m["caught_by_quick_check_of"] = [p for p, (rc, sig) in runs.items() if rc == 1]
    json.dump(m, open(d, "w"), indent=1)
print("| id | change | needs | caught by (quick tier; first signatures) |")
print("|----|--------|-------|------------------------------------------|")
print("\n".join(rows))
