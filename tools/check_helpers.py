"""Extra warm-up for ./check setup: CLI builds and the feature-matrix target dir."""
import sys


def warm(build):
    chk = sys.modules["__main__"]
    ok = True
    for cfg in ["ring", "aws"]:
        cli, msg = chk.build_cli(cfg)
        print("# " + msg.splitlines()[0], flush=True)
        ok = ok and cli is not None
    import c16
    for pkg, f in [("rcgen", "ring,pem,x509-parser,zeroize"), ("rcgen", "aws_lc_rs,pem,x509-parser,zeroize"), ("rustls-cert-gen", "ring"), ("rustls-cert-gen", "aws_lc_rs")]:
        rc, out = c16.cargo_check(chk, pkg, f)
        print("# warmed feature target: %s [%s] rc=%d" % (pkg, f, rc), flush=True)
    return ok
