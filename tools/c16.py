"""C16 driver: (1) every advertised feature combination compiles, (2) ring / aws-lc-rs / crypto-less builds produce
byte-identical to-be-signed data for the same parameters and keys, (3) artefacts and keys cross between back ends."""
import itertools
import json
import os
import subprocess
import sys
import time
from concurrent.futures import ThreadPoolExecutor


def feature_sets():
    sets = []
    for backend in ["", "ring", "aws_lc_rs"]:
        for pem, x509, zero in itertools.product([0, 1], repeat=3):
            f = [x for x in [backend, "pem" if pem else "", "x509-parser" if x509 else "", "zeroize" if zero else ""] if x]
            sets.append(",".join(f))
    return sets


def cargo_check(chk, pkg, features, extra=()):
    tdir = os.path.join(chk.ws_dir(), "target-features")
    cmd = ["cargo", "check", "--offline", "-p", pkg, "--no-default-features", "--manifest-path", os.path.join(chk.repo_path(), "Cargo.toml"),
           "--target-dir", tdir] + list(extra)
    if features:
        cmd += ["--features", features]
    r = subprocess.run(cmd, env=chk.cargo_env(), stdout=subprocess.PIPE, stderr=subprocess.STDOUT, text=True)
    return r.returncode, r.stdout


def main(chk, prop, tier, seed, replay):
    t0 = time.time()
    inconclusive, results, violations = [], [], 0
    base = os.path.join(chk.runs_root(), prop, tier)
    os.makedirs(base, exist_ok=True)
    vdir = os.path.join(base, "violations")
    counters = {}

    def violation(sig, index, case, detail, backend="build"):
        nonlocal violations
        violations += 1
        os.makedirs(vdir, exist_ok=True)
        vp = os.path.join(vdir, "%s-%s-%d.json" % (prop, backend, violations))
        json.dump(dict(property=prop, backend=backend, sig=sig, workload="driver", seed=seed, index=index, case=case, detail=detail), open(vp, "w"))
        chk.log("VIOLATION property=%s replay=%s" % (prop, vp))
        chk.log("  sig=%s detail=%s" % (sig, detail[:600]))

    # (1) feature matrix
    matrix = []
    if not replay:
        jobs = [("rcgen", f, ()) for f in feature_sets()]
        jobs += [("rustls-cert-gen", "ring", ()), ("rustls-cert-gen", "aws_lc_rs", ())]
        if tier == "thorough":
            jobs += [("rcgen", f, ("--examples",)) for f in ["ring,pem,x509-parser", "aws_lc_rs,pem,x509-parser", "ring,pem"]]
        for i, (pkg, f, extra) in enumerate(jobs):
            rc, out = cargo_check(chk, pkg, f, extra)
            matrix.append(dict(package=pkg, features=f, extra=list(extra), ok=rc == 0))
            counters["enum:feature_sets_checked"] = counters.get("enum:feature_sets_checked", 0) + 1
            if rc != 0:
                offline = "no matching package" in out or "failed to download" in out or "offline" in out and "error: failed to" in out
                tail = "\n".join(out.splitlines()[-25:])
                if offline:
                    inconclusive.append("cargo-offline:%s" % f)
                    chk.log("INCONCLUSIVE property=%s reason=cargo-cannot-resolve-offline:%s\n%s" % (prop, f, tail))
                else:
                    violation("c16:feature-set-does-not-build:%s[%s]" % (pkg, f), i, "cargo check -p %s --no-default-features --features '%s' %s" % (pkg, f, " ".join(extra)), tail)
    # (2)/(3) differential between the three builds
    bins = {}
    for cfg in ["ring", "aws", "nocrypto"]:
        b, msg = chk.build(cfg)
        chk.log("# " + msg.splitlines()[0])
        if b is None:
            # a harness configuration that does not build because rcgen does not build is covered by (1)
            inconclusive.append("build:" + cfg)
            chk.log("INCONCLUSIVE property=%s reason=build-failed:%s" % (prop, cfg))
        else:
            bins[cfg] = b
    keys = os.path.join(base, "keys.txt")
    exp = os.path.join(base, "exchange")
    k = 300 if tier == "quick" else 6000
    if len(bins) == 3:
        r = chk.run_mon(bins["ring"], prop, "ring", tier, seed, os.path.join(base, "keygen"), extra_args=["mode=gen-keys", "keys=" + keys])
        if r["rc"] != 0:
            inconclusive.append("key-generation")
        evs = {}
        for cfg in ["ring", "aws", "nocrypto"]:
            ev = os.path.join(base, "dump-" + cfg, "events.jsonl")
            r = chk.run_mon(bins[cfg], prop, cfg, tier, seed, os.path.join(base, "dump-" + cfg), replay=replay,
                            extra_args=["mode=dump", "keys=" + keys, "events=" + ev, "k=%d" % k, "export=" + exp])
            r["cfg"] = "dump-" + cfg
            sys.stdout.write(r["stdout"])
            results.append(r)
            evs[cfg] = ev
            if r["rc"] == 1:
                violations += sum((r["summary"] or {}).get("violation_sigs", {"?": 1}).values())
            elif r["rc"] != 0:
                inconclusive.append("dump:%s:%s" % (cfg, r["rc"]))
                chk.log("INCONCLUSIVE property=%s reason=dump-exit:%s:%s\n%s" % (prop, cfg, r["rc"], r["stderr"][-500:]))
        if not replay:
            for cfg, other in [("ring", "aws"), ("aws", "ring")]:
                r = chk.run_mon(bins[cfg], prop, cfg, tier, seed, os.path.join(base, "cross-" + cfg),
                                extra_args=["mode=cross", "keys=" + keys, "other=" + evs[other], "export=" + exp])
                r["cfg"] = "cross-" + cfg
                sys.stdout.write(r["stdout"])
                results.append(r)
                if r["rc"] == 1:
                    violations += sum((r["summary"] or {}).get("violation_sigs", {"?": 1}).values())
                elif r["rc"] != 0:
                    inconclusive.append("cross:%s:%s" % (cfg, r["rc"]))
                    chk.log("INCONCLUSIVE property=%s reason=cross-exit:%s:%s\n%s" % (prop, cfg, r["rc"], r["stderr"][-500:]))
        # offline join: same case => same TBS hash in the three logs
        table = {}
        for cfg, ev in evs.items():
            if os.path.exists(ev):
                for line in open(ev):
                    e = json.loads(line)
                    table.setdefault(e["case"], {})[cfg] = e["tbs"]
        joined = 0
        for case, d in sorted(table.items()):
            if len(d) == 3:
                joined += 1
                if len(set(d.values())) != 1:
                    violation("c16:tbs-differs-between-builds", case, "table case %d" % case, "TBS hashes per build: %s" % d, backend="ring")
        counters["eval:cases_joined_across_three_builds"] = joined
        if joined < 50 and not replay and not inconclusive:
            inconclusive.append("too-few-joined-cases:%d" % joined)
    if replay:
        return 1 if violations else 0
    extra = dict(feature_matrix=matrix, driver_observed=counters)
    results.append(dict(cfg="driver", rc=0, wall=time.time() - t0, out_dir=base,
                        summary=dict(counters=counters, samples=["feature sets: %s" % [m["features"] for m in matrix][:30]], rule="", exhaustive_note="all 24 feature sets of rcgen and both of rustls-cert-gen", distinct=0)))
    chk.write_evidence(prop, tier, seed, results, [], time.time() - t0, violations, inconclusive, extra)
    if violations:
        return 1
    if inconclusive:
        chk.log("INCONCLUSIVE property=%s reasons=%s" % (prop, inconclusive))
        return 3
    chk.log("OK property=%s tier=%s seed=%d wall=%.1fs feature_sets=%d joined=%d" % (prop, tier, seed, time.time() - t0, len(matrix), counters.get("eval:cases_joined_across_three_builds", 0)))
    return 0
