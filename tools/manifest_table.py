"""Text of MANIFEST.json entries, one per claimed property."""

NOTES = ("Runtime monitoring only: every check runs the real rcgen code under generated workloads and lets "
         "reference-model / differential monitors observe the executions; verdicts are three-valued "
         "(0 held on what was observed, 1 violation with replay file, 3 inconclusive). See DESIGN.md.")

NOT_APPLICABLE = {}

CHECKS = {
    "C09": dict(
        technique="runtime monitoring: reference-model monitor (independent civil-time model) over generated boundary sweeps; OpenSSL ASN1_TIME as second reader",
        text="Every (instant, offset, nanosecond) value of the boundary sweeps (every step within +-26 h of 1950, 2050, year 0 and year 9999, x 64 offsets) and of a random sample is pushed through notBefore/notAfter/thisUpdate/nextUpdate/revocationDate of real certificates and CRLs; a strict DER reader extracts tag and text and a 20-line model decides form, text and instant; equal instants under different offsets must give equal bytes.",
        design_ref="DESIGN.md 5/C09",
        note="Trusted: harness civil-time arithmetic (unit-tested), derx reader, OpenSSL on a sample. Inputs whose UTC year is outside 0..=9999 belong to C10.",
    ),
    "C13": dict(
        technique="runtime monitoring: exhaustive alphabet sweep against predicates transcribed from the property; independent UTF-16/32 codecs; decode-back of serialised certificates",
        text="All 1,112,064 scalar values x 5 string types x every text constructor, every 16-bit unit / every 32-bit value up to 0x110400 for the byte-level constructors, random mixed strings, and every accepted character serialised into a subject attribute (and SANs for IA5) and decoded back with an independent DER reader.",
        design_ref="DESIGN.md 5/C13",
        note="Alphabets are those stated in the property (TeletexString = U+0020..U+007F). Multi-character behaviour is sampled, single-character behaviour is enumerated.",
    ),
    "C20": dict(
        technique="runtime monitoring: executable sequential model (ordered Vec) checked after every step of bounded-exhaustive and random edit histories; decode-back of certificates built from reached states",
        text="All push/remove histories up to length 6 (quick) / 7 (thorough) over 4 attribute types x 2 values are executed against the real DistinguishedName and a Vec model, comparing iter(), get() for every type, remove() results, equality, and the subject RDNSequence of certificates built from the states; random histories up to length 200 over 12 types and all six value kinds.",
        design_ref="DESIGN.md 5/C20",
        note="Model = insertion-ordered association list as stated in the property. CustomDnType([2,5,4,3]) and CommonName are distinct attribute types for the API and are modelled as such.",
    ),
}
