"""Text of MANIFEST.json entries, one per claimed property."""

NOTES = ("Runtime monitoring only: every check runs the real rcgen code under generated workloads and lets "
         "reference-model / differential monitors observe the executions; verdicts are three-valued "
         "(0 held on what was observed, 1 violation with replay file, 3 inconclusive). See DESIGN.md.")

NOT_APPLICABLE = {}

CHECKS = {
    "C06": dict(
        technique="runtime monitoring: soundness oracle on every ACCEPTED input (OpenSSL verification over independently extracted CRI bytes and key) over base requests from rcgen and OpenSSL, exhaustive single-bit flips and structure-aware mutants; decode-back of the issued certificate",
        text="Requests made by rcgen for every key family and by OpenSSL (P-384+SHA-256, P-256+SHA-384/512, RSA with SHA-1/224/384/512/SHA3, P-521, secp256k1, Ed448, RSA-1024, unsupported and unknown extensions, repeated subject attributes), every single-bit flip of selected requests, tens of thousands of TLV-level and byte-level mutants, and thousands of mutants of the to-be-signed part that are RE-SIGNED with the requester's key (validly signed odd requests) are offered to from_der. For every accepted input the oracle re-extracts certificationRequestInfo, SubjectPublicKeyInfo and signature with its own tolerant reader and requires OpenSSL to verify; the request must not contain anything rcgen does not carry over; the certificate issued from it must embed the request's SPKI byte-for-byte and (for requests that are strictly valid DER) its subject / SAN / KU / EKU. Conservation: offered = accepted + rejected + panicked. OpenSSL-made requests carry otherName SANs with UTF8/IA5/Printable/BMP/OCTET STRING values; the issued SAN is compared byte for byte.",
        design_ref="DESIGN.md 5/C06",
        note="Rejections are never judged. The unsigned wrapper (outer SEQUENCE, AlgorithmIdentifier tag bits, trailing elements) is read as tolerantly as x509-parser reads it, because it does not touch signed bytes, key or signature.",
    ),
    "C10": dict(
        technique="runtime monitoring: unwind observer (catch_unwind + panic-location hook), per-call watchdog, process-death attribution by marker file, over structure-aware mutation of a corpus made in the run and hostile parameter generators; ASan / Miri layers in the thorough tier",
        text="Every parsing entry point (CA import DER/PEM, CSR DER/PEM, all nine private-key loaders x every algorithm, SPKI DER/PEM, string constructors, CIDR text, OID lookups) is fed the corpus (rcgen and OpenSSL certificates with every extension kind, multi-valued RDNs, CSRs, PKCS#8 v1/v2, SEC1, PKCS#1, SPKIs and their PEM texts), >100k TLV-level/byte-level mutants, PEM text mutants and random bytes; whatever a parser accepts is pushed on through self_signed / signed_by / serialize_request and the accessors. Every generation entry point is fed hostile values (non-ASCII in String fields, OID lists of any length/content, years -9999..=9999 with any offset, empty and huge vectors, arbitrary pre-encoded bytes, remote keys returning empty or giant signatures and public keys). A panic, a process killed by a signal (reproduced single-threaded and attributed by marker) is a violation keyed by entry point and panic location; a call exceeding 20 s is inconclusive. Hostile parameter sets are half all-hostile, half hostile in one or two dimensions; a directed enumeration of 7920 date boundary cases (year ends x offsets x fields); every string type through every constructor, whatever is accepted goes through generation.",
        design_ref="DESIGN.md 5/C10",
        note="The three documented panics (ACME digest length, serialising a remote key, impossible calendar date) are never requested. Non-termination is restated as a per-call wall budget.",
    ),
    "C11": dict(
        technique="runtime monitoring: round-trip differential with OpenSSL as independent key decoder and signature verifier over every (key family x loading route x reload route) and every (key, requested algorithm, explicit loader) pair",
        text="Fresh keys of every family (back-end generated, OpenSSL generated PKCS#8 v1, Ed25519 v1/v2, RSA 2048/3072/4096, aws: P-521, generated RSA, SEC1/PKCS#1) are loaded through all eight routes, saved by all three serialisers, reloaded through every route; public key (OpenSSL's reading of the private key), key type, algorithm, exported SPKI (bytes, curve / NULL parameters via derx, parse-back through SubjectPublicKeyInfo::from_der/pem) and a signature verified by OpenSSL under the ORIGINAL public key are compared. All mismatched (key, algorithm) pairs must return Err; fitting ones Ok. Algorithm ==/Hash/from_oid consistency over all pairs. aws-lc-rs: SEC1/PKCS#1 keys through five routes (from_der_and_sign_algo, TryFrom<Vec<u8>>, TryFrom<&[u8]>, labelled PEM with and without algorithm) and reloaded through serialize_der/serialize_pem.",
        design_ref="DESIGN.md 5/C11",
        note="For RSA the hash is not a property of the key: auto-detecting routes are only required to yield an RSA algorithm.",
    ),
    "C12": dict(
        technique="runtime monitoring: independent path validators (OpenSSL X509_verify_cert, webpki verify_for_usage) as judges of chains built by rcgen, expected verdict from an RFC 5280 section 6 model of the parameters",
        text="Chains root -> [0..3 intermediates] -> leaf over directed single-dimension cases (CA flag variants x position, path length {none,0,1,2} x position x depth, 7 verification instants x 3 validity windows, permitted/excluded DNS subtrees x 7 leaf names x 2 positions, IPv4/IPv6 prefixes with addresses flipped at the last masked / first free bit, 8 leaf EKU sets x 2 purposes, 10 CA key-usage sets x 2 positions) and random multi-dimension cases; both validators must give the verdict the parameters imply. Every validity window in five time flavours (sub-second parts, ends in 2055, non-UTC offsets); chains with authority key identifiers and different key-identifier methods down the chain; three issuance routes.",
        design_ref="DESIGN.md 5/C12",
        note="Judge table: trust-anchor CA flag / path length / validity and CA key usage are judged by OpenSSL only (webpki does not evaluate them); the notAfter instant itself is judged by webpki only (OpenSSL treats it as expired).",
    ),
    "C14": dict(
        technique="runtime monitoring: strict RFC 7468 decoder written from the RFC (own base64) as oracle, OpenSSL PEM readers as lenient cross-check, rcgen's own loaders for the round trip, over a byte-by-byte size sweep",
        text="Certificates, CSRs and CRLs whose DER length grows one byte at a time over >= 160 consecutive lengths (small and large variants), private and public keys of every family and RSA size: label, 64-character lines, canonical padding, LF line ending, nothing before or after, payload equal to the DER accessor; loaders recover the same bytes. The residues of the DER lengths modulo 3 and 48 actually seen are recorded; a sweep missing a residue makes the run inconclusive. Private-key PEM for every key through all loading routes (label must fit the content: PKCS#8 shape under PRIVATE KEY); a certificate issued for the SubjectPublicKeyInfo loaded from PEM must carry exactly public_key_der().",
        design_ref="DESIGN.md 5/C14",
        note="Key sizes are discrete, so key PEMs cover only some residues mod 48 (reported in the evidence).",
    ),
    "C15": dict(
        technique="runtime monitoring: recorded event log (case, phase, thread, round, process, hash of TBS, hash of output) checked online per process and offline across processes: all executions of a case agree; exactly-once accounting; fingerprints of shared keys/issuers before = after; TSan and Miri layers in the thorough tier",
        text="A table of 200 (quick) / 2000 certificate, CSR and CRL parameter sets with fixed keys (names of 6-8 attributes, >= 3 EKUs in CSRs, every key-id method) is executed 3x back to back, again after unrelated API calls, then by 4 and 16 (thorough: 2..64) barrier-released threads sharing one set of KeyPairs and issuer Certificates, each in its own seeded order for several rounds, in 6 (thorough 18) fresh processes under both back ends. TBS bytes (complete output for Ed25519 / RSA) must be identical across all of it; returned params equal the input; shared keys and issuers report the same content afterwards. The number of executions of the same case that actually overlapped in time on different threads is measured and reported. CRL dates with sub-second parts and offsets; an Ed25519 key behind RemoteKeyPair whose signer pauses for a data-dependent time; RSA-3072 and PKCS#1-loaded (aws) keys in the table.",
        design_ref="DESIGN.md 5/C15",
        note="'For all schedules' is sampled; the evidence says how many overlapping same-case pairs were observed. Safe Rust excludes data races in rcgen itself; TSan/Miri watch the dependencies.",
    ),
    "C16": dict(
        technique="runtime monitoring over a finite configuration space: cargo check of all 24 feature sets (+ CLI x 2) observed exhaustively; differential event logs of the same table under ring / aws-lc-rs / crypto-less builds joined offline; cross verification and key exchange files",
        text="Every feature subset {none|ring|aws_lc_rs} x pem x x509-parser x zeroize of rcgen and both back ends of rustls-cert-gen is compiled from the working tree; a table of portable cases (explicit serial, pre-specified key ids) with the same keys is executed by the three harness builds (crypto-less: remote signer with the same public key) and the TBS hashes are joined per case; each crypto build verifies the other's artefacts with OpenSSL and re-parses its CSRs, and loads the keys the other build generated and exported (DER and PEM), comparing public key and algorithm.",
        design_ref="DESIGN.md 5/C16",
        note="The build clause is decided by observing the build tool on every member of the configuration space; flagged as the weakest fit for the family.",
    ),
    "C18": dict(
        technique="runtime monitoring of the real binary: generated option sets, fresh directory per invocation, exit status / stderr / directory listing / strace of attempted creations, files judged by derx, pemx, OpenSSL and webpki",
        text="rustls-cert-gen (both back ends) is run with every algorithm flag, 0..12 names mixing DNS / IPv4 / IPv6 (compressed, expanded, v4-mapped, IP look-alikes), ASCII / UTF-8 / empty / long CN, country and organisation, both purpose flags, base names with dots, spaces and UTF-8, existing / new / nested output directories. Valid sets: exit 0, exactly the four files, strict PEM, keys match certificates, chain validates under OpenSSL and webpki, CA is a CA with keyCertSign and cRLSign, end-entity carries exactly the names (IP literals as iPAddress), CN and purposes. Invalid sets (non-printable country, non-ASCII SAN, unsupported algorithm): non-zero exit, no panic, no file. IPv6 names in their longest spellings (45 characters, embedded dotted quad), upper case and full groups.",
        design_ref="DESIGN.md 5/C18",
        note="Known finding: base names X and X.key collide on X.key.pem (directed probe, reported as KNOWN-FINDING); near misses (X / X.keys, X.pem / X) are checked as ordinary valid sets.",
    ),
    "C19": dict(
        technique="runtime monitoring: leak scanner (12-byte windows of the private components extracted by OpenSSL, searched raw and after decoding hex / decimal-list / base64 runs) with positive controls, over every public output and every error text reachable with a key",
        text="For fresh keys of every family and back end: DER/PEM/Debug of certificates, CSRs and CRLs made with the key as subject and as issuer, exported public key in three forms, Debug of KeyPair / params / parsed SPKI / CSR params, and Display+Debug of every error obtained by feeding 12 variants of the key PEM (truncated, bit-flipped, relabelled, CRLF, key-then-cert bundle, SEC1 / PKCS#1 re-encodings) and 6 DER variants to every loader and parser under every algorithm (about 200 diagnostics per key). The scanner must find the secret in serialize_der / serialize_pem / hex / decimal / shifted base64 controls, otherwise the run is inconclusive.",
        design_ref="DESIGN.md 5/C19",
        note="False-positive probability per comparison about 2^-96. String-type constructors are not key parsers and are not fed key texts.",
    ),
    "C01": dict(
        technique="runtime monitoring: differential oracle (OpenSSL EVP_DigestVerify over the TBS bytes cut out by an independent DER reader), recording remote signer, fault injection at every sign call",
        text="Certificates (self-signed, issuer-signed, three public-key sources), CSRs and CRLs from enumerated and random parameter sets are produced with every pool key (RSA 2048-4096 x SHA-256/384/512, P-256/384/521, Ed25519; generated by the back end, by OpenSSL, loaded through every entry point; local and remote) under ring and aws-lc-rs. For each artefact the to-be-signed bytes are cut out with derx and the signature is verified by OpenSSL under the signer's SubjectPublicKeyInfo; inner/outer AlgorithmIdentifier bytes are compared with a table transcribed from the RFCs; recording remote signers must have been asked exactly once for exactly those bytes; a remote signer failing at its n-th call must produce Err and no artefact. Certificates are issued through all three routes (key pair, SubjectPublicKeyInfo, parsed CSR -> CertificateSigningRequestParams::signed_by); aws-lc-rs: RSA keys generated by rcgen under each digest and keys arriving in SEC1/PKCS#1 through five routes. 2400 CRLs (thorough: 24000) signed by remote RSA keys under each digest, so that PKCS#1 signatures beginning with a zero octet occur (their number is in the evidence) and must be embedded unshortened.",
        design_ref="DESIGN.md 5/C01",
        note="Trusted: OpenSSL signature verification and key decoding; derx split of the outer SEQUENCE. A misbehaving remote signer (wrong bytes) is the caller's fault and not asserted.",
    ),
    "C02": dict(
        technique="runtime monitoring: reference-model monitor (ParamSpec -> expected content) over two independent decoders (derx schema decoder, OpenSSL accessors)",
        text="Every subset of the extension-bearing fields x 3 IsCa kinds (384), all 512 key-usage subsets, all prefix lengths 0..=255 x 2 families x 4 CIDR constructors, all 256 path lengths, the 4x4 key-identifier grid, every pool key x 3 public-key sources, artefacts beyond 64 KiB, the convenience entry points (generate_simple_self_signed, CertificateParams::new, accessors) and thousands of random parameter sets are built into real certificates; the decoded certificate must contain exactly the requested serial, validity, subject (types, string kinds, order), SubjectPublicKeyInfo, SAN, KU, EKU, BC/pathLen, NC (address/mask), CRL-DP, AKI, custom extensions (value and criticality), a SKI equal to the configured derivation (hashes computed by OpenSSL), nothing else; cert.params() and key_identifier() must agree with the DER. Issuance through all three routes incl. CertificateSigningRequestParams::signed_by; half of all names are reached through an edit history (decoy removed, value replaced); SAN/name-constraint host names with upper case, wildcard, leading/trailing/double dots, punycode.",
        design_ref="DESIGN.md 5/C02",
        note="Order of extensions / SAN entries / subtrees is not asserted (multisets); names are order-sensitive. Expectations never go through rcgen or x509-parser.",
    ),
    "C03": dict(
        technique="runtime monitoring: byte-level invariants (issuer==subject bytes, AKI==SKI) plus OpenSSL X509_verify_cert and webpki path validation as independent judges, over rcgen-made, re-imported and OpenSSL-made issuers",
        text="Leaves are issued from (a) rcgen-generated CAs with names of every shape and all 4x4 key-id method pairs, (b) rcgen CAs - roots and intermediates carrying both AKI and SKI - exported, imported from DER/PEM and re-created with the same key, (c) CA certificates built by OpenSSL (repeated attribute types, several string types, with/without SKI, multi-valued RDNs via the CLI) and imported. Ok from import obliges: issuer bytes identical to the ORIGINAL certificate's subject, AKI equal to its SKI, OpenSSL and webpki accept the chain at a common validity time; Err from import is accepted. Leaves are issued through all three routes; OpenSSL-made CAs have shuffled extension order, T61 values with octets >= 0x80, missing cRLSign; a foreign issuer certificate is read leniently by the oracle (names as they are).",
        design_ref="DESIGN.md 5/C03",
        note="Validators are asked only when the issuer is a CA with non-empty name and cert-signing usage, leaf has no unknown critical extension; webpki only for algorithms its ring provider supports.",
    ),
    "C04": dict(
        technique="runtime monitoring: strict DER canonicity walker (written from X.690/RFC 5280) over every byte rcgen emits, including extension contents and ECDSA signature values",
        text="All certificates, CSRs and CRLs of the C02/C07/C08 workloads (every key-usage subset, serial/CRL-number shapes, attribute orderings, IsCa kinds, time forms, string kinds) and every exported SubjectPublicKeyInfo are walked: minimal lengths/tags, minimal INTEGER and OID, BOOLEAN 0xFF, DEFAULT omitted, BIT STRING padding and named-bit lists, SET OF order, string alphabets, exact time forms, no trailing bytes; caller-supplied DER must appear byte-for-byte. Further workloads: names imported from foreign CA certificates/CSRs holding every single byte under each string type (what is accepted is walked after re-issue, leaf, CRL, CSR-derived certificate); SubjectPublicKeyInfo handed over with non-minimal lengths; every algorithm SignatureAlgorithm::from_oid hands out for 14 well-known OIDs (RSASSA-PSS parameter DEFAULTs known to the walker); every character each string constructor accepts.",
        design_ref="DESIGN.md 5/C04",
        note="The walker rejects a fixed list of hand-made non-canonical encodings in its unit tests; OpenSSL is not an oracle here (BER-tolerant).",
    ),
    "C05": dict(
        technique="runtime monitoring: structural predicates over independently decoded artefacts; thousands of fresh subject keys for the hash-derived serial",
        text="Profile-conformant parameter sets of the C02/C07/C08 workloads plus >= 3000 (quick) fresh Ed25519/P-256 keys for the automatic serial: serial positive, non-zero, <= 20 octets; v3 with extensions; SAN critical iff subject empty; BC critical in CAs; NC critical and never empty; key identifiers non-critical; no duplicate extension; CRLs v2 with nextUpdate, non-critical AKI and CRL number, critical IDP, no empty revokedCertificates; CSRs v0 with [0] attributes always present and at most one extension request.",
        design_ref="DESIGN.md 5/C05",
        note="The evidence reports how many keys had each value of the hash's top bit / boundary first bytes.",
    ),
    "C07": dict(
        technique="runtime monitoring: reference-model monitor over an independent RFC 2986 decoder and OpenSSL X509_REQ; refusal lattice; parse-back differential",
        text="CSRs for every subset of {KU, SAN, EKU, custom} x 0..3 attributes, all 512 key-usage subsets, all 24 orderings of 4 attributes (with duplicate OIDs and duplicate attributes), every pool key, random sets; the decoded request must carry subject, SPKI, exactly one extension request with exactly the requested extensions, every caller attribute byte-for-byte; every non-empty subset of the five inexpressible fields (31 x 4 variants) must be refused; parse-back within documented support must return the same subject, SANs, KU/EKU sets, key and algorithm. A second trip (parse -> write -> parse) must reproduce the parsed parameters.",
        design_ref="DESIGN.md 5/C07",
        note="Known finding (P-521 requests cannot be parsed back under aws-lc-rs) is reproduced and reported as KNOWN-FINDING.",
    ),
    "C08": dict(
        technique="runtime monitoring: reference-model monitor over an independent CRL decoder; OpenSSL X509_CRL_get0_by_serial and webpki find_serial as independent revocation checkers; refusal predicates computed on whole seconds",
        text="CRLs with 0..200 entries, the full reason x invalidity-date lattice, serial/CRL-number shapes, both scopes, four key-id methods, every issuer key, all 512 issuer key-usage sets, and thisUpdate/nextUpdate pairs including equality, reversal and sub-second differences; decoded issuer bytes, instants, CRL number, AKI (method of the CRL applied to the issuer key), IDP, entries (serial, time, reason with absent==unspecified, invalidity date as GeneralizedTime) must match; listed <=> revoked under OpenSSL X509_CRL_get0_by_serial and webpki find_serial, and for eligible cases under full path validation with CRL checking (OpenSSL CRL_CHECK, webpki RevocationOptions); requests whose encoded nextUpdate <= thisUpdate or whose issuer lacks cRLSign must be refused. CRLs under *imported* issuers (OpenSSL-made CA, extensions in any order) must be refused exactly when the issuer certificate lacks cRLSign.",
        design_ref="DESIGN.md 5/C08",
        note="Entries are compared as a multiset. webpki is only asked for CRLs it can parse (CRL number <= 20 octets).",
    ),
    "C17": dict(
        technique="runtime monitoring: round-trip differential (ParamSpec -> certificate -> import -> field-wise comparison -> re-issue -> decode) plus OpenSSL-made CA certificates with known content",
        text="All 512 key-usage subsets, 256 path lengths, 2x256 prefixes x 4 constructors and thousands of random importable parameter sets are generated, imported from DER and PEM and compared field by field (subject, CA flag/path length, KU set, standard EKU set, SANs, subtrees, serial, validity, SKI as pre-specified key id); re-issuing with the same key must reproduce those fields in the DER; OpenSSL-built CAs with known fields are imported and compared as well. A second import of the re-issued certificate must give the same parameters again.",
        design_ref="DESIGN.md 5/C17",
        note="Custom extensions, non-standard EKUs and CRL distribution points are documented as not imported and are not asserted.",
    ),
    "C09": dict(
        technique="runtime monitoring: reference-model monitor (independent civil-time model) over generated boundary sweeps; OpenSSL ASN1_TIME as second reader",
        text="Every (instant, offset, nanosecond) value of the boundary sweeps (every step within +-26 h of 1950, 2050, year 0 and year 9999, x 64 offsets) and of a random sample is pushed through notBefore/notAfter/thisUpdate/nextUpdate/revocationDate of real certificates and CRLs; a strict DER reader extracts tag and text and a 20-line model decides form, text and instant; equal instants under different offsets must give equal bytes. The invalidityDate entry extension is checked as a sixth field (always GeneralizedTime).",
        design_ref="DESIGN.md 5/C09",
        note="Trusted: harness civil-time arithmetic (unit-tested), derx reader, OpenSSL on a sample. Inputs whose UTC year is outside 0..=9999 belong to C10.",
    ),
    "C13": dict(
        technique="runtime monitoring: exhaustive alphabet sweep against predicates transcribed from the property; independent UTF-16/32 codecs; decode-back of serialised certificates",
        text="All 1,112,064 scalar values x 5 string types x every text constructor, every 16-bit unit / every 32-bit value up to 0x110400 for the byte-level constructors, random mixed strings, and every accepted character serialised into a subject attribute (and SANs for IA5) and decoded back with an independent DER reader. Every accepted character alone/first/last/middle/doubled; string values arriving through the import path: arbitrary content octets under each string tag patched into a CA certificate (admitted iff well-formed, stored and written back octet for octet).",
        design_ref="DESIGN.md 5/C13",
        note="Alphabets are those stated in the property (TeletexString = U+0020..U+007F). Multi-character behaviour is sampled, single-character behaviour is enumerated.",
    ),
    "C20": dict(
        technique="runtime monitoring: executable sequential model (ordered Vec) checked after every step of bounded-exhaustive and random edit histories; decode-back of certificates built from reached states",
        text="All push/remove histories up to length 6 (quick) / 7 (thorough) over 4 attribute types x 2 values are executed against the real DistinguishedName and a Vec model, comparing iter(), get() for every type, remove() results, equality, and the subject RDNSequence of certificates built from the states; random histories up to length 200 over 12 types and all six value kinds. Histories that start from a name imported from a CA certificate or CSR, with the certificate subject checked after every step.",
        design_ref="DESIGN.md 5/C20",
        note="Model = insertion-ordered association list as stated in the property. CustomDnType([2,5,4,3]) and CommonName are distinct attribute types for the API and are modelled as such.",
    ),
}
