"""C15 driver: key file once, P processes running the table (history + thread phases), offline checker over all event logs."""
import json
import os
import sys
import time
from concurrent.futures import ThreadPoolExecutor


def main(chk, prop, tier, seed, replay):
    t0 = time.time()
    spec = chk.props.PROPS[prop]
    cfgs = ["ring", "aws"]
    nproc = 4 if tier == "quick" else 12
    inconclusive, results, violations = [], [], 0
    bins = {}
    for cfg in cfgs:
        b, msg = chk.build(cfg)
        chk.log("# " + msg.splitlines()[0])
        if b is None:
            chk.log(msg)
            inconclusive.append("build:" + cfg)
            chk.log("INCONCLUSIVE property=%s reason=build-failed:%s" % (prop, cfg))
        else:
            bins[cfg] = b
    if replay:
        cfg = json.load(open(replay)).get("backend", "ring")
        base = os.path.join(chk.runs_root(), prop, tier)
        r = chk.run_mon(bins[cfg], prop, cfg, tier, seed, os.path.join(base, "replay"), replay=replay,
                        extra_args=["mode=c15", "keys=" + os.path.join(base, "keys.txt")])
        sys.stdout.write(r["stdout"])
        return 0 if r["rc"] == 0 else r["rc"]
    base = os.path.join(chk.runs_root(), prop, tier)
    os.makedirs(base, exist_ok=True)
    keys = os.path.join(base, "keys.txt")
    if "ring" in bins:
        r = chk.run_mon(bins["ring"], prop, "ring", tier, seed, os.path.join(base, "keygen"), extra_args=["mode=gen-keys", "keys=" + keys])
        if r["rc"] != 0 or not os.path.exists(keys):
            inconclusive.append("key-generation")
            chk.log("INCONCLUSIVE property=%s reason=key-generation\n%s" % (prop, r["stderr"][-600:]))
    jobs = []
    for cfg in bins:
        for p in range(nproc if cfg == "ring" else max(2, nproc // 2)):
            jobs.append((cfg, p))

    def one(job):
        cfg, p = job
        out = os.path.join(base, "%s-p%d" % (cfg, p))
        ev = os.path.join(out, "events.jsonl")
        r = chk.run_mon(bins[cfg], prop, cfg, tier, seed, out,
                        extra_args=["mode=c15", "proc=%d" % p, "keys=" + keys, "events=" + ev],
                        timeout=spec.get("timeout_quick", 1500) if tier == "quick" else 4 * 3600)
        r["cfg"] = "%s-p%d" % (cfg, p)
        r["events"] = ev
        return r

    if not inconclusive:
        with ThreadPoolExecutor(max_workers=4) as ex:
            for r in ex.map(one, jobs):
                sys.stdout.write(r["stdout"])
                results.append(r)
                if r["rc"] == 1:
                    violations += sum((r["summary"] or {}).get("violation_sigs", {"?": 1}).values())
                elif r["rc"] != 0:
                    inconclusive.append("process:%s:%s" % (r["cfg"], r["rc"]))
                    chk.log("INCONCLUSIVE property=%s reason=process-exit:%s:%s\n%s" % (prop, r["cfg"], r["rc"], r["stderr"][-600:]))
    # offline checker: per (back end, case) all TBS hashes equal over threads, rounds, phases AND processes
    groups = {}
    nevents = 0
    procs = set()
    for r in results:
        if not os.path.exists(r["events"]):
            continue
        for line in open(r["events"]):
            e = json.loads(line)
            nevents += 1
            procs.add((e["backend"], e["proc"]))
            g = groups.setdefault((e["backend"], e["case"]), dict(tbs={}, der={}, det=e["det"], n=0))
            g["n"] += 1
            g["tbs"].setdefault(e["tbs"], (e["proc"], e["phase"], e["thread"], e["round"]))
            g["der"].setdefault(e["der"], (e["proc"], e["phase"], e["thread"], e["round"]))
    vdir = os.path.join(base, "violations")
    cross_viol = 0
    for (backend, case), g in sorted(groups.items()):
        bad = None
        if len(g["tbs"]) > 1:
            bad = ("c15:tbs-differs-across-processes", "to-be-signed bytes of one case differ between executions: %s" % g["tbs"])
        elif g["det"] and len(g["der"]) > 1:
            bad = ("c15:output-differs-across-processes", "complete output differs for a deterministic scheme: %s" % g["der"])
        if bad:
            cross_viol += 1
            if cross_viol <= 5:
                os.makedirs(vdir, exist_ok=True)
                vp = os.path.join(vdir, "%s-%s-offline-%d.json" % (prop, backend, case))
                json.dump(dict(property=prop, backend=backend, sig=bad[0], workload="table", seed=seed, index=case,
                               case="table case %d" % case, detail=bad[1]), open(vp, "w"))
                chk.log("VIOLATION property=%s replay=%s" % (prop, vp))
                chk.log("  sig=%s detail=%s" % bad)
    violations += cross_viol
    if not inconclusive and (nevents < 1000 or len(procs) < 2):
        inconclusive.append("too-few-events:%d:%d" % (nevents, len(procs)))
        chk.log("INCONCLUSIVE property=%s reason=too-few-events" % prop)
    extra = dict(processes=len(procs), events_joined_offline=nevents, case_groups=len(groups),
                 offline_checker="group by (back end, case): one TBS hash; one output hash when the scheme is deterministic")
    layers = []
    if tier == "thorough" and spec.get("layers"):
        import layers as layer_mod
        for name in spec["layers"]:
            res = layer_mod.run_layer(chk, name, prop, seed)
            layers.append(res)
            violations += res.get("violations", 0)
    chk.write_evidence(prop, tier, seed, results, layers, time.time() - t0, violations, inconclusive, extra)
    if violations:
        return 1
    if inconclusive:
        return 3
    chk.log("OK property=%s tier=%s seed=%d wall=%.1fs events=%d processes=%d" % (prop, tier, seed, time.time() - t0, nevents, len(procs)))
    return 0
