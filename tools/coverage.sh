#!/bin/bash
# Measures which lines of rcgen the quick-tier workloads of all monitors execute (ring configuration).
# Diagnostic only (needs the nightly toolchain's llvm-tools); not part of any check.
set -e
cd /verif
W=$(python3 -c "import hashlib;print('.build/ws-'+hashlib.md5(b'/repo').hexdigest()[:8])")
./check setup >/dev/null
RUSTFLAGS="-Cinstrument-coverage" cargo +nightly build --offline --manifest-path $W/Cargo.toml --target-dir $W/target-cov --features ring,ossl --bin mon 2>&1 | tail -1
BIN=$W/target-cov/debug/mon
C=/verif/.build/cov; rm -rf $C; mkdir -p $C
$W/target-ring/debug/mon C15 --tier quick --seed 1 --out $C/keys mode=gen-keys keys=$C/keys.txt >/dev/null 2>&1
for p in C01 C02 C03 C04 C05 C06 C07 C08 C09 C10 C11 C12 C13 C14 C17 C19 C20 MIRI-IMPORT; do
  LLVM_PROFILE_FILE=$C/$p-%p.profraw VERIF_SCALE_DIV=4 $BIN $p --tier quick --seed 1 --out $C/out-$p --known /verif/KNOWN_FINDINGS.txt >/dev/null 2>&1 || true
done
LLVM_PROFILE_FILE=$C/C15-%p.profraw $BIN C15 --tier quick --seed 1 --out $C/out-C15 mode=c15 keys=$C/keys.txt k=60 >/dev/null 2>&1 || true
LLVM_PROFILE_FILE=$C/C18-%p.profraw VERIF_SCALE_DIV=4 $BIN C18 --tier quick --seed 1 --out $C/out-C18 --known /verif/KNOWN_FINDINGS.txt cli=/verif/$W/cli-ring/debug/rustls-cert-gen >/dev/null 2>&1 || true
LLVM=$(dirname $(rustc +nightly --print target-libdir))/bin
$LLVM/llvm-profdata merge -sparse $C/*.profraw -o $C/all.profdata
$LLVM/llvm-cov report $BIN -instr-profile=$C/all.profdata --ignore-filename-regex='(registry|harness|rustc|\.cargo|rustup)' 2>/dev/null | awk '{print $1, $8, $9, $10}'
echo "--- lines of rcgen never executed:"
for f in certificate.rs key_pair.rs lib.rs csr.rs crl.rs; do $LLVM/llvm-cov show $BIN -instr-profile=$C/all.profdata /repo/rcgen/src/$f 2>/dev/null | grep -E "^ +[0-9]+\| +0\|" | sed "s|^|$f |" | cut -c1-140; done
