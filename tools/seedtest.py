#!/usr/bin/env python3
"""Run quick checks against seeded mutants in scratch copies of /repo, several in parallel.

usage: tools/seedtest.py [-j N] [--tier quick] <mutant-dir>:<PROP>[,<PROP>...] ...
  mutant-dir contains patch.diff; results are appended to /verif/.build/seedtest.log and printed.
"""
import hashlib, os, shutil, subprocess, sys, json, time
from concurrent.futures import ThreadPoolExecutor

VERIF = "/verif"

def one(job):
    mdir, props, tier = job
    name = mdir.strip("/").replace("/", "_")
    scratch = "/tmp/mut/" + name
    shutil.rmtree(scratch, ignore_errors=True)
    os.makedirs("/tmp/mut", exist_ok=True)
    subprocess.run(["rsync", "-a", "--exclude", "target", "--exclude", ".git", "/repo/", scratch + "/"], check=True)
    r = subprocess.run(["patch", "-p1", "-s", "-d", scratch, "-i", os.path.join(mdir, "patch.diff")], capture_output=True, text=True)
    if r.returncode != 0:
        return (mdir, "PATCH-FAILED", r.stdout + r.stderr)
    env = dict(os.environ, VERIF_REPO=scratch)
    h = hashlib.md5(scratch.encode()).hexdigest()[:8]
    out = []
    for p in props:
        t0 = time.time()
        r = subprocess.run([os.path.join(VERIF, "check"), p, "--tier", tier], env=env, capture_output=True, text=True, cwd=VERIF)
        sigs = sorted(set(l.split("sig=")[1].split(" ")[0] for l in r.stdout.splitlines() if l.strip().startswith("sig=")))
        inc = [l for l in r.stdout.splitlines() if l.startswith("INCONCLUSIVE")]
        out.append("%s rc=%d %.0fs sigs=%s %s" % (p, r.returncode, time.time() - t0, sigs[:6], inc[:2]))
    shutil.rmtree(scratch, ignore_errors=True)
    shutil.rmtree(os.path.join(VERIF, ".build", "ws-" + h), ignore_errors=True)
    return (mdir, "DONE", " | ".join(out))

def main():
    args = sys.argv[1:]
    j = 3
    tier = "quick"
    jobs = []
    i = 0
    while i < len(args):
        if args[i] == "-j":
            j = int(args[i + 1]); i += 1
        elif args[i] == "--tier":
            tier = args[i + 1]; i += 1
        else:
            d, ps = args[i].rsplit(":", 1)
            jobs.append((d, ps.split(","), tier))
        i += 1
    with ThreadPoolExecutor(max_workers=j) as ex:
        for mdir, st, msg in ex.map(one, jobs):
            line = "%s %s %s" % (mdir, st, msg)
            print(line, flush=True)
            with open(os.path.join(VERIF, ".build", "seedtest.log"), "a") as f:
                f.write(line + "\n")

main()
