#!/usr/bin/env python3
"""Take the deliverables of one seeding sub-agent (<src>/<P>/out/<x>/) into /verif/seeded/<P>-<x>/,
confirm each myself in the scratch worktree <src>/<P>/wt (tools/confirm_seed.py) and record the result.
usage: tools/import_round.py <round> <src> <P> [<P> ...]"""
import json, os, shutil, subprocess, sys
rnd, src, props = int(sys.argv[1]), sys.argv[2], sys.argv[3:]
STEER = {3: "a note asking for breadth of mechanism and quiet effects", 4: "a note assigning an angle to each change (aws-lc-rs-only code, import paths, rare variants, issuer-signed artefacts, helper impls, size/boundary handling)",
         5: "a note giving each change a maintainer's story (de-duplication, performance/caching, API robustness, idiom clean-up, feature addition with a sibling not updated) and asking for triggers that combine two conditions",
         6: "a note about what it takes to manifest (two cooperating sites, a multi-step sequence, a fault/refusal path, a quantitative trigger, an interaction between fields)",
         7: "the same kind of note as round 6 with another trigger kind per property, one change each, steered away from the most-edited sites towards trait impls, accessors, conversions, CLI plumbing, cfg-gated code and the CRL/CSR paths"}
ORIGIN = "written by an independent sub-agent that was given only the property record (statement, scope, anchors), %s, and its own scratch worktree of /repo (nothing from /verif)" % STEER.get(rnd, "a steer derived from the property text")
for P in props:
    wt = os.path.join(src, P, "wt")
    for x in sorted(os.listdir(os.path.join(src, P, "out"))):
        d = os.path.join(src, P, "out", x)
        if not os.path.exists(os.path.join(d, "patch.diff")) or not os.path.exists(os.path.join(d, "meta.json")):
            continue
        sid = "%s-%s" % (P, x)
        dst = os.path.join("/verif/seeded", sid)
        os.makedirs(dst, exist_ok=True)
        for f in os.listdir(d):
            if f in ("patch.diff", "meta.json") or f.startswith("demo."):
                shutil.copy(os.path.join(d, f), os.path.join(dst, f))
        r = subprocess.run([sys.executable, "/verif/tools/confirm_seed.py", dst], env=dict(os.environ, CONFIRM_WT=wt), capture_output=True, text=True)
        print(r.stdout.strip(), flush=True)
        c = json.load(open(os.path.join(dst, "confirm.json")))
        m = json.load(open(os.path.join(dst, "meta.json")))
        demo = [f for f in os.listdir(dst) if f.startswith("demo.")][0]
        meta = {
            "id": sid, "property": P, "round": rnd,
            "summary": m.get("summary"), "needs": m.get("needs"), "files": m.get("files"),
            "origin": ORIGIN,
            "rebased": False,
            "demonstration": {"file": demo, "place_at": c.get("demo_dest"), "command": c.get("demo_cmd")},
            "confirmed_by_me": {
                "how": "tools/confirm_seed.py in a scratch git worktree of /repo (outside /repo and /verif): apply patch -> `cargo nextest run --workspace --offline` -> demonstration -> revert -> demonstration",
                "existing_70_tests_pass_with_change": c.get("suite_with_change"),
                "demonstration_fails_with_change": c.get("demo_fails_with_change"),
                "demonstration_passes_without_change": c.get("demo_passes_without_change"),
            },
        }
        json.dump(meta, open(os.path.join(dst, "meta.json"), "w"), indent=1)
        if not c.get("ok"):
            print("NOT CONFIRMED:", sid, c.get("why"), (c.get("demo_tail_with") or "")[-200:])
        os.remove(os.path.join(dst, "confirm.json"))
