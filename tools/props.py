"""Per-property configuration of ./check (which build configurations run, floors, layers)."""

PROPS = {
    "C15": dict(custom="c15", floor=1000, layers=["tsan-c15", "miri-c15"]),
    "C16": dict(custom="c16", floor=100, exhaustive_thorough=False),
    "C18": dict(configs=["ring", "aws"], floor=100, needs_cli=True),
    "C10": dict(layers=['asan-c10', 'miri-import'], configs=["ring", "aws"], configs_thorough=["ring", "aws", "ring-release"], floor=20000, abort_is_violation=True),
    "C06": dict(layers=['asan-c06'], configs=["ring", "aws"], floor=5000),
    "C11": dict(layers=['valgrind-c11'], configs=["ring", "aws"], floor=500),
    "C14": dict(configs=["ring", "aws"], floor=500, needs_cli=True),
    "C19": dict(configs=["ring", "aws"], floor=500),
    "C12": dict(configs=["ring", "aws"], floor=500),
    "C03": dict(configs=["ring", "aws"], floor=500),
    "C17": dict(layers=['miri-import'], configs=["ring", "aws"], floor=1000),
    "C01": dict(layers=['valgrind-c01'], configs=["ring", "aws"], floor=1000),
    "C02": dict(configs=["ring", "aws"], floor=1000),
    "C04": dict(configs=["ring", "aws"], floor=1000),
    "C05": dict(configs=["ring", "aws"], floor=1000),
    "C07": dict(configs=["ring", "aws"], floor=1000),
    "C08": dict(configs=["ring", "aws"], floor=1000),
    "C09": dict(layers=['miri-c09'], configs=["ring", "aws"], configs_thorough=["ring", "aws"], floor=1000, exhaustive_thorough=False),
    "C13": dict(layers=['miri-c13'], configs=["ring", "aws"], configs_thorough=["ring", "aws"], floor=1000000, exhaustive_thorough=True),
    "C20": dict(layers=['miri-c20'], configs=["ring", "aws"], configs_thorough=["ring", "aws"], floor=100000, exhaustive_thorough=True),
}
