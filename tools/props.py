"""Per-property configuration of ./check (which build configurations run, floors, layers)."""

PROPS = {
    "C09": dict(configs=["ring"], configs_thorough=["ring", "aws"], floor=1000, exhaustive_thorough=False),
    "C13": dict(configs=["ring"], configs_thorough=["ring", "aws"], floor=1000000, exhaustive_thorough=True),
    "C20": dict(configs=["ring"], configs_thorough=["ring", "aws"], floor=100000, exhaustive_thorough=True),
}
