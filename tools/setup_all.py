"""MANIFEST.setup_cmd: build every harness configuration the quick tier uses, from files on disk."""
import sys


def main(build):
    ok = True
    for cfg in ["ring", "aws", "nocrypto"]:
        binary, msg = build(cfg)
        print("# " + msg.splitlines()[0], flush=True)
        if binary is None:
            print(msg)
            ok = False
    import check_helpers
    ok = check_helpers.warm(build) and ok
    return 0 if ok else 1
