#!/bin/bash
# usage: tools/try_seed.sh <patch.diff> <PROP> [PROP...]   (applies the patch to /repo, runs quick checks, reverts)
patch="$1"; shift
cd /repo || exit 2
if ! git diff --quiet; then echo "/repo has uncommitted changes"; exit 2; fi
git apply "$patch" || { echo "patch does not apply"; exit 2; }
trap 'git -C /repo checkout -- . ' EXIT
cd /verif
for p in "$@"; do
  out=$(VERIF_TIER=${TIER:-quick} ./check "$p" --tier ${TIER:-quick} 2>&1); rc=$?
  echo "== $p rc=$rc"
  echo "$out" | grep -E "VIOLATION|KNOWN-FINDING|INCONCLUSIVE|sig=" | head -${LINES_MAX:-8}
done
