"""Sanitizer / interpreter layers of the thorough tier (DESIGN.md 4.5).

Each layer re-runs a (smaller) workload of a monitor under Miri, AddressSanitizer, ThreadSanitizer or
valgrind memcheck. A sanitizer report is a violation of the property whose workload produced it; a tool
that cannot run (build failure, unsupported operation, unknown instruction) makes that LAYER inconclusive
and is reported in the evidence, it never changes the verdict of the native monitor.
"""
import json
import os
import re
import subprocess
import time

# layer name -> (tool, monitor property to run, extra mon args, env, description)
LAYERS = {
    "miri-c20": ("miri", "C20", [], {}, "DistinguishedName histories and certificates built from them, crypto-less build"),
    "miri-c13": ("miri", "C13", [], {}, "string constructors, byte-level constructors and serialisation, crypto-less build"),
    "miri-c09": ("miri", "C09", [], {}, "time encodings at the boundaries, crypto-less build"),
    "miri-import": ("miri", "MIRI-IMPORT", [], {}, "generate (remote signer) -> import -> mutate -> import -> re-issue, crypto-less build"),
    "miri-c15": ("miri", "C15", ["mode=miri"], {"MIRI_SEEDS": "0..4"}, "3 threads sharing a remote key and two issuers, 4 seeded schedules"),
    "asan-c10": ("asan", "C10", [], {"VERIF_SCALE_DIV": "2"}, "parser mutation and hostile generation workloads under AddressSanitizer"),
    "asan-c06": ("asan", "C06", [], {"VERIF_SCALE_DIV": "2"}, "CSR mutation workload under AddressSanitizer"),
    "tsan-c15": ("tsan", "C15", ["mode=c15", "threads=16", "rounds=2", "k=80"], {}, "16 threads sharing keys and issuers under ThreadSanitizer (std rebuilt with -Zbuild-std)"),
    "valgrind-c01": ("valgrind", "C01", [], {"VERIF_SCALE_DIV": "60"}, "sign / verify across the FFI boundary into ring and aws-lc under memcheck"),
    "valgrind-c11": ("valgrind", "C11", [], {"VERIF_SCALE_DIV": "60"}, "key load -> export -> sign across the FFI boundary under memcheck"),
}


def run_layer(chk, name, prop, seed):
    tool, mon_prop, extra, env_extra, desc = LAYERS[name]
    t0 = time.time()
    res = dict(layer=name, tool=tool, workload=desc, ran=False, reports=0, violations=0, status="not run", detail="")
    try:
        if tool == "miri":
            _miri(chk, res, name, prop, mon_prop, extra, env_extra, seed)
        elif tool in ("asan", "tsan"):
            _san(chk, res, name, prop, mon_prop, extra, env_extra, seed, tool)
        else:
            _valgrind(chk, res, name, prop, mon_prop, extra, env_extra, seed)
    except Exception as ex:  # noqa: BLE001
        res["status"] = "layer inconclusive (driver error)"
        res["detail"] = str(ex)[:500]
    res["wall_s"] = round(time.time() - t0, 1)
    chk.log("# layer %s: %s (%s reports, %.0f s)" % (name, res["status"], res["reports"], res["wall_s"]))
    if res["violations"]:
        vdir = os.path.join(chk.runs_root(), prop, "thorough", "layer-" + name, "violations")
        os.makedirs(vdir, exist_ok=True)
        vp = os.path.join(vdir, "%s-%s.json" % (prop, name))
        json.dump(dict(property=prop, backend=name, sig="%s:%s-report" % (prop.lower(), tool), workload="layer", seed=seed, index=0,
                       case=desc, detail=res["detail"]), open(vp, "w"))
        chk.log("VIOLATION property=%s replay=%s" % (prop, vp))
        chk.log("  sig=%s:%s-report detail=%s" % (prop.lower(), tool, res["detail"][:400]))
    return res


def _summary(out_dir):
    p = os.path.join(out_dir, "summary.json")
    if os.path.exists(p):
        try:
            return json.load(open(p))
        except Exception:  # noqa: BLE001
            return None
    return None


def _miri(chk, res, name, prop, mon_prop, extra, env_extra, seed):
    ws = chk.materialise_ws()
    out_dir = os.path.join(chk.runs_root(), prop, "thorough", "layer-" + name)
    os.makedirs(out_dir, exist_ok=True)
    flags = "-Zmiri-disable-isolation"
    if env_extra.get("MIRI_SEEDS"):
        flags += " -Zmiri-many-seeds=" + env_extra["MIRI_SEEDS"]
    cmd = ["cargo", "+nightly", "miri", "run", "--offline", "--manifest-path", os.path.join(ws, "Cargo.toml"),
           "--target-dir", chk.target_dir("miri"), "--bin", "mon", "--", mon_prop, "--tier", "quick", "--seed", str(seed),
           "--out", out_dir, "--threads", "1"] + extra
    env = chk.cargo_env({"MIRIFLAGS": flags})
    try:
        r = subprocess.run(cmd, env=env, stdout=subprocess.PIPE, stderr=subprocess.PIPE, text=True, errors="replace", timeout=3600, cwd=chk.VERIF)
    except subprocess.TimeoutExpired:
        res["status"] = "layer inconclusive (Miri watchdog, 60 min)"
        return
    res["ran"] = True
    s = _summary(out_dir)
    ub = len(re.findall(r"error: Undefined Behavior|error: a data race|Data race detected", r.stderr))
    if ub:
        res["reports"] = ub
        res["violations"] = ub
        res["status"] = "Miri reported undefined behaviour / a data race"
        i = r.stderr.find("error:")
        res["detail"] = r.stderr[i:i + 1500]
    elif "unsupported operation" in r.stderr or "can't call foreign function" in r.stderr:
        res["status"] = "layer inconclusive (Miri: unsupported operation)"
        i = r.stderr.find("error:")
        res["detail"] = r.stderr[i:i + 600]
    elif r.returncode == 1 and s and s.get("violation_sigs"):
        # the monitor itself found a violation while interpreted
        res["violations"] = sum(s["violation_sigs"].values())
        res["status"] = "monitor violation under Miri"
        res["detail"] = json.dumps(s["violation_sigs"])
    elif r.returncode != 0:
        res["status"] = "layer inconclusive (exit %d)" % r.returncode
        res["detail"] = r.stderr[-800:]
    else:
        res["status"] = "no report"
        if s:
            res["observed"] = {k: v for k, v in s.get("counters", {}).items() if k.startswith(("eval:", "enum:"))}


def _san(chk, res, name, prop, mon_prop, extra, env_extra, seed, tool):
    binary, msg = chk.build(tool)
    if binary is None:
        res["status"] = "layer inconclusive (%s build failed)" % tool
        res["detail"] = msg[-800:]
        return
    out_dir = os.path.join(chk.runs_root(), prop, "thorough", "layer-" + name)
    args = list(extra)
    env = dict(env_extra)
    if tool == "asan":
        env["ASAN_OPTIONS"] = "detect_leaks=0:halt_on_error=1:abort_on_error=0:symbolize=1"
    else:
        env["TSAN_OPTIONS"] = "halt_on_error=1:exitcode=66:second_deadlock_stack=1"
        # the key file is made by the plain ring build
        ring, _ = chk.build("ring")
        keys = os.path.join(out_dir + "-keys", "keys.txt")
        chk.run_mon(ring, mon_prop, "ring", "quick", seed, out_dir + "-keys", extra_args=["mode=gen-keys", "keys=" + keys])
        args += ["keys=" + keys]
    r = chk.run_mon(binary, mon_prop, tool, "quick", seed, out_dir, extra_args=args, env_extra=env, timeout=3 * 3600)
    res["ran"] = True
    pat = "ERROR: AddressSanitizer" if tool == "asan" else "WARNING: ThreadSanitizer"
    n = r["stderr"].count(pat)
    s = r["summary"]
    if n:
        res["reports"] = n
        res["violations"] = n
        res["status"] = "%s report" % tool
        i = r["stderr"].find(pat)
        res["detail"] = r["stderr"][i:i + 2000]
    elif r["rc"] == 1 and s and s.get("violation_sigs"):
        res["violations"] = sum(s["violation_sigs"].values())
        res["status"] = "monitor violation under %s" % tool
        res["detail"] = json.dumps(s["violation_sigs"])
    elif r["rc"] != 0:
        res["status"] = "layer inconclusive (exit %s)" % r["rc"]
        res["detail"] = r["stderr"][-800:]
    else:
        res["status"] = "no report"
        if s:
            res["observed"] = {k: v for k, v in s.get("counters", {}).items() if k.startswith(("eval:", "enum:"))}


def _valgrind(chk, res, name, prop, mon_prop, extra, env_extra, seed):
    total_reports = 0
    statuses = []
    for cfg in ["ring", "aws"]:
        binary, msg = chk.build(cfg)
        if binary is None:
            statuses.append("%s: build failed" % cfg)
            continue
        out_dir = os.path.join(chk.runs_root(), prop, "thorough", "layer-%s-%s" % (name, cfg))
        os.makedirs(out_dir, exist_ok=True)
        log = os.path.join(out_dir, "valgrind.log")
        cmd = ["valgrind", "--error-exitcode=99", "--leak-check=no", "--log-file=" + log, binary, mon_prop, "--tier", "quick",
               "--seed", str(seed), "--out", out_dir, "--threads", "4"] + list(extra)
        env = chk.cargo_env(env_extra)
        try:
            r = subprocess.run(cmd, env=env, stdout=subprocess.PIPE, stderr=subprocess.PIPE, text=True, errors="replace", timeout=3 * 3600, cwd=chk.VERIF)
        except subprocess.TimeoutExpired:
            statuses.append("%s: watchdog" % cfg)
            continue
        res["ran"] = True
        text = open(log).read() if os.path.exists(log) else ""
        m = re.search(r"ERROR SUMMARY: (\d+) errors", text)
        nerr = int(m.group(1)) if m else 0
        if "unrecognised instruction" in text or "Unrecognised instruction" in text or r.returncode in (-4, 132):
            statuses.append("%s: layer inconclusive (valgrind does not know an instruction used by the crypto library)" % cfg)
        elif nerr:
            total_reports += nerr
            i = text.find("==", text.find("Invalid") if "Invalid" in text else 0)
            res["detail"] += "[%s] %s\n" % (cfg, text[max(0, i):i + 1500])
            statuses.append("%s: %d memcheck errors" % (cfg, nerr))
        elif r.returncode not in (0,):
            statuses.append("%s: layer inconclusive (exit %d)" % (cfg, r.returncode))
            res["detail"] += "[%s] %s\n" % (cfg, r.stderr[-400:])
        else:
            s = _summary(out_dir)
            statuses.append("%s: no report (%s API-level events)" % (cfg, sum(v for k, v in (s or {}).get("counters", {}).items() if k.startswith("eval:"))))
    res["reports"] = total_reports
    res["violations"] = total_reports
    res["status"] = "; ".join(statuses)
