#!/usr/bin/env python3
"""Regenerates /verif/MANIFEST.json from tools/manifest_table.py (kept valid at all times)."""
import json
import os
import sys

HERE = os.path.dirname(os.path.abspath(__file__))
sys.path.insert(0, HERE)
import manifest_table as T  # noqa: E402

VERIF = os.path.dirname(HERE)
all_ids = [json.loads(l)["id"] for l in open(os.path.join(VERIF, "properties.jsonl"))]

checks = []
for pid in all_ids:
    if pid not in T.CHECKS:
        continue
    c = T.CHECKS[pid]
    checks.append(dict(
        property_id=pid,
        quick_cmd="./check %s --tier quick" % pid,
        thorough_cmd="./check %s --tier thorough" % pid,
        evidence_file="/verif/evidence/%s.json" % pid,
        replay_cmd_template="./check %s --replay {path}" % pid,
        engine="mon",
        level_claimed=dict(category="exploration", text=c["text"], design_ref=c["design_ref"]),
        level_note=c["note"],
        technique=c["technique"],
    ))

manifest = dict(
    version=1,
    setup_cmd="./check setup",
    hooks=dict(
        guard="rcgen_verif",
        enable="none needed: every property is observed at the public API (no source hooks; the guard name is reserved, see DESIGN.md section 1)",
        baseline_off_cmd="cd /repo && cargo nextest run --workspace --no-fail-fast --test-threads 8 --offline || cargo test --workspace --no-fail-fast --offline",
        source_commits=[],
        add_only=True,
    ),
    engines=[dict(
        name="mon",
        path="/verif/harness",
        serves_properties=[c["property_id"] for c in checks],
        kind_free_text="Rust monitor library + workload binary (`mon <ID>`), built against /repo's working tree in ring / aws-lc-rs / crypto-less configurations, driven by ./check (Python) which also runs the sanitizer layers (Miri, ASan, TSan, valgrind) in the thorough tier",
    )],
    checks=checks,
    notes=T.NOTES,
    not_applicable=[dict(property_id=p, reason=T.NOT_APPLICABLE.get(p, "check not built yet in this session (work in progress); see DESIGN.md section 5 for the planned monitor")) for p in all_ids if p not in T.CHECKS],
)
json.dump(manifest, open(os.path.join(VERIF, "MANIFEST.json"), "w"), indent=1)
print("MANIFEST.json: %d checks, %d not claimed" % (len(checks), len(manifest["not_applicable"])))
