#!/usr/bin/env python3
import json,glob,sys
prop=sys.argv[1]; tier=sys.argv[2] if len(sys.argv)>2 else 'quick'
seen={}
for f in sorted(glob.glob('/verif/runs/%s/%s/*/violations/*.json'%(prop,tier))):
    d=json.load(open(f))
    k=d['sig']
    if k in seen: continue
    seen[k]=1
    print(f.split('/')[-1], d['sig'], d['workload'], d['index'])
    print('   DETAIL:', d['detail'][:700])
    print('   CASE:', d['case'][:int(sys.argv[3]) if len(sys.argv)>3 else 400])
for cfg in glob.glob('/verif/runs/%s/%s/*/summary.json'%(prop,tier)):
    s=json.load(open(cfg)); print(cfg.split('/')[-2], s['violation_sigs'])
