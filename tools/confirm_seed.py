#!/usr/bin/env python3
"""Confirm a sub-agent's seeded change myself in a scratch worktree:
   (1) it applies and the repository's 70 tests still pass with it,
   (2) its demonstration FAILS with the change, (3) and PASSES without it.
usage: tools/confirm_seed.py <mutant-dir> [...]   -> writes <mutant-dir>/confirm.json
"""
import json, os, re, shutil, subprocess, sys, time

def sh(cmd, cwd, timeout=3000):
    env = dict(os.environ, CARGO_NET_OFFLINE="true", RUST_BACKTRACE="0")
    r = subprocess.run(cmd, shell=True, cwd=cwd, env=env, stdout=subprocess.PIPE, stderr=subprocess.STDOUT, text=True, timeout=timeout)
    return r.returncode, r.stdout

def confirm(mdir, wt):
    meta = json.load(open(os.path.join(mdir, "meta.json")))
    if "demo_cmd" not in meta and "demonstration" in meta:
        dm = meta["demonstration"]
        meta["demo_cmd"] = "cp %s %s && %s" % (dm["file"], dm["place_at"], dm["command"])
    demo_cmd = meta["demo_cmd"].split("#")[0].strip()
    m = re.match(r"cp demo\.(rs|sh) (\S+) && (.*)", demo_cmd)
    if not m:
        return dict(ok=False, why="cannot parse demo_cmd: " + demo_cmd)
    dest, cmd = m.group(2), m.group(3)
    res = dict(dir=mdir, demo_dest=dest, demo_cmd=cmd)
    sh("git checkout -- . && git clean -fdq -e target", wt)
    rc, out = sh("patch -p1 -s -i " + os.path.join(mdir, "patch.diff"), wt)
    if rc != 0:
        return dict(res, ok=False, why="patch does not apply: " + out[-300:])
    rc, out = sh("cargo nextest run --workspace --no-fail-fast --offline --test-threads 8 2>&1 | tail -5", wt)
    res["suite_with_change"] = "70 passed" in out and "failed" not in out.split("Summary")[-1]
    res["suite_tail"] = out[-300:]
    os.makedirs(os.path.dirname(os.path.join(wt, dest)), exist_ok=True)
    shutil.copy(os.path.join(mdir, "demo." + m.group(1)), os.path.join(wt, dest))
    rc1, out1 = sh(cmd + " 2>&1 | tail -30", wt)
    ran1 = bool(re.search(r"test result|tests run", out1))
    failed1 = bool(re.search(r"test result: FAILED|[1-9]\d* failed|FAILED", out1))
    res["demo_fails_with_change"] = ran1 and failed1
    sh("git checkout -- . && git clean -fdq -e target -e rcgen/tests -e rustls-cert-gen/tests", wt)
    rc2, out2 = sh(cmd + " 2>&1 | tail -30", wt)
    passed2 = bool(re.search(r"test result: ok|\d+ passed", out2)) and not re.search(r"test result: FAILED|[1-9]\d* failed", out2)
    m2 = re.search(r"(\d+) passed", out2)
    res["demo_passes_without_change"] = passed2 and bool(m2) and int(m2.group(1)) > 0
    res["demo_tail_with"] = out1[-400:]
    res["demo_tail_without"] = out2[-300:]
    os.remove(os.path.join(wt, dest))
    res["ok"] = bool(res["suite_with_change"] and res["demo_fails_with_change"] and res["demo_passes_without_change"])
    return res

def main():
    wt = os.environ.get("CONFIRM_WT", "/tmp/confirm/wt")
    if not os.path.isdir(wt):
        os.makedirs("/tmp/confirm", exist_ok=True)
        subprocess.run(["git", "-C", "/repo", "worktree", "add", "--detach", wt, "HEAD", "-q"], check=True)
        subprocess.run(["cp", "-r", "/repo/target", wt + "/target"], check=True)
    for mdir in sys.argv[1:]:
        t0 = time.time()
        try:
            r = confirm(mdir.rstrip("/"), wt)
        except Exception as e:  # noqa: BLE001
            r = dict(dir=mdir, ok=False, why=str(e))
        r["wall_s"] = round(time.time() - t0)
        json.dump(r, open(os.path.join(mdir, "confirm.json"), "w"), indent=1)
        print(mdir, "OK" if r.get("ok") else "NOT-CONFIRMED", {k: r.get(k) for k in ("suite_with_change", "demo_fails_with_change", "demo_passes_without_change", "why")}, r["wall_s"], flush=True)

main()
