//! `mon <ID> --tier quick|thorough --seed N --out DIR [--threads N] [--replay FILE] [--known FILE]`
//! Runs the monitor of one property in this build configuration and writes DIR/summary.json.

use vh::ctx::{load_known, load_replay, Ctx, Tier};

fn main() {
	let args: Vec<String> = std::env::args().collect();
	if args.len() < 2 {
		eprintln!("usage: mon <ID> --tier quick|thorough --seed N --out DIR [--threads N] [--replay FILE] [--known FILE]");
		std::process::exit(2);
	}
	let prop = args[1].clone();
	let mut tier = Tier::Quick;
	let mut seed = 1u64;
	let mut out = std::path::PathBuf::from(".");
	let mut threads = std::thread::available_parallelism().map(|n| n.get()).unwrap_or(4);
	let mut replay = None;
	let mut known = String::new();
	let mut extra: Vec<String> = Vec::new();
	let mut i = 2;
	while i < args.len() {
		let val = |i: usize| args.get(i + 1).cloned().unwrap_or_default();
		match args[i].as_str() {
			"--tier" => {
				tier = if val(i) == "thorough" { Tier::Thorough } else { Tier::Quick };
				i += 1;
			},
			"--seed" => {
				seed = val(i).parse().unwrap_or(1);
				i += 1;
			},
			"--out" => {
				out = val(i).into();
				i += 1;
			},
			"--threads" => {
				threads = val(i).parse().unwrap_or(threads);
				i += 1;
			},
			"--replay" => {
				replay = load_replay(&val(i));
				if replay.is_none() {
					eprintln!("cannot read replay file {}", val(i));
					std::process::exit(2);
				}
				i += 1;
			},
			"--known" => {
				known = val(i);
				i += 1;
			},
			other => extra.push(other.to_string()),
		}
		i += 1;
	}
	vh::install_panic_hook();
	let known = if known.is_empty() { Vec::new() } else { load_known(&known, &prop) };
	let ctx = Ctx::new(&prop, vh::BACKEND, tier, seed, out, threads, known, replay);
	let (rule, note) = vh::mon::dispatch(&ctx, &extra);
	let code = ctx.finish(&rule, &note);
	std::process::exit(code);
}
