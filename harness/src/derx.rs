//! Strict DER reader written from X.690, independent of yasna / x509-parser / OpenSSL.
//!
//! `parse` checks the encoding rules that every DER TLV must satisfy; `check_canonical`
//! walks a tree and applies the value-dependent rules of each universal type.

#[derive(Clone, Debug)]
pub struct Tlv<'a> {
	/// 0 universal, 1 application, 2 context, 3 private
	pub class: u8,
	pub constructed: bool,
	pub tag: u32,
	/// the complete TLV
	pub raw: &'a [u8],
	pub content: &'a [u8],
}

pub const BOOLEAN: u32 = 1;
pub const INTEGER: u32 = 2;
pub const BIT_STRING: u32 = 3;
pub const OCTET_STRING: u32 = 4;
pub const NULL: u32 = 5;
pub const OID: u32 = 6;
pub const ENUMERATED: u32 = 10;
pub const UTF8: u32 = 12;
pub const SEQUENCE: u32 = 16;
pub const SET: u32 = 17;
pub const PRINTABLE: u32 = 19;
pub const TELETEX: u32 = 20;
pub const IA5: u32 = 22;
pub const UTCTIME: u32 = 23;
pub const GENTIME: u32 = 24;
pub const UNIVERSAL: u32 = 28;
pub const BMP: u32 = 30;

pub type R<T> = Result<T, String>;

impl<'a> Tlv<'a> {
	pub fn is_univ(&self, tag: u32) -> bool {
		self.class == 0 && self.tag == tag
	}
	pub fn is_ctx(&self, tag: u32) -> bool {
		self.class == 2 && self.tag == tag
	}
	pub fn expect_univ(&self, tag: u32, what: &str) -> R<()> {
		if self.is_univ(tag) {
			Ok(())
		} else {
			Err(format!(
				"{}: expected universal tag {}, found class {} tag {}",
				what, tag, self.class, self.tag
			))
		}
	}
	pub fn children(&self, strict: bool) -> R<Vec<Tlv<'a>>> {
		if !self.constructed {
			return Err("children of a primitive element".into());
		}
		parse_all(self.content, strict)
	}
}

/// Parse one TLV from the front of `input`. With `strict`, DER length/tag minimality is enforced;
/// without, any definite-length BER header is accepted.
pub fn parse_one(input: &[u8], strict: bool) -> R<(Tlv<'_>, &[u8])> {
	if input.is_empty() {
		return Err("empty input".into());
	}
	let b0 = input[0];
	let class = b0 >> 6;
	let constructed = b0 & 0x20 != 0;
	let mut tag = (b0 & 0x1f) as u32;
	let mut i = 1;
	if tag == 0x1f {
		tag = 0;
		let mut n = 0;
		loop {
			let b = *input.get(i).ok_or("truncated high tag number")?;
			if n == 0 && b == 0x80 && strict {
				return Err("non-minimal high tag number".into());
			}
			tag = tag.checked_mul(128).ok_or("tag number overflow")? | (b & 0x7f) as u32;
			i += 1;
			n += 1;
			if b & 0x80 == 0 {
				break;
			}
			if n > 4 {
				return Err("tag number too large".into());
			}
		}
		if tag < 31 && strict {
			return Err("high tag number form used for tag < 31".into());
		}
	}
	let l0 = *input.get(i).ok_or("truncated length")?;
	i += 1;
	let len: usize;
	if l0 < 0x80 {
		len = l0 as usize;
	} else if l0 == 0x80 {
		return Err("indefinite length".into());
	} else if l0 == 0xff {
		return Err("reserved length octet 0xff".into());
	} else {
		let n = (l0 & 0x7f) as usize;
		if n > 8 {
			return Err("length of length > 8".into());
		}
		let mut v: u64 = 0;
		for k in 0..n {
			let b = *input.get(i + k).ok_or("truncated long length")?;
			if k == 0 && b == 0 && strict {
				return Err("non-minimal length (leading zero octet)".into());
			}
			v = (v << 8) | b as u64;
		}
		i += n;
		if v < 128 && strict {
			return Err("non-minimal length (long form for < 128)".into());
		}
		if v > (input.len() as u64) {
			return Err("length exceeds input".into());
		}
		len = v as usize;
	}
	if input.len() - i < len {
		return Err(format!("content truncated: need {} have {}", len, input.len() - i));
	}
	let tlv = Tlv {
		class,
		constructed,
		tag,
		raw: &input[..i + len],
		content: &input[i..i + len],
	};
	Ok((tlv, &input[i + len..]))
}

pub fn parse_all(mut input: &[u8], strict: bool) -> R<Vec<Tlv<'_>>> {
	let mut v = Vec::new();
	while !input.is_empty() {
		let (t, rest) = parse_one(input, strict)?;
		v.push(t);
		input = rest;
	}
	Ok(v)
}

/// Parse exactly one TLV with no trailing bytes.
pub fn parse_exact(input: &[u8], strict: bool) -> R<Tlv<'_>> {
	let (t, rest) = parse_one(input, strict)?;
	if !rest.is_empty() {
		return Err(format!("{} trailing byte(s) after the element", rest.len()));
	}
	Ok(t)
}

/// Is `content` a well-formed DER OBJECT IDENTIFIER value (arcs of any size)?
pub fn oid_wellformed(content: &[u8]) -> R<()> {
	if content.is_empty() {
		return Err("empty OID".into());
	}
	let mut start = true;
	for &b in content {
		if start && b == 0x80 {
			return Err("non-minimal OID subidentifier (leading 0x80)".into());
		}
		start = b & 0x80 == 0;
	}
	if !start {
		return Err("OID ends inside a subidentifier".into());
	}
	Ok(())
}

pub fn decode_oid(content: &[u8]) -> R<Vec<u64>> {
	if content.is_empty() {
		return Err("empty OID".into());
	}
	let mut subs: Vec<u128> = Vec::new();
	let mut cur: u128 = 0;
	let mut started = false;
	for (k, &b) in content.iter().enumerate() {
		if !started && b == 0x80 {
			return Err("non-minimal OID subidentifier (leading 0x80)".into());
		}
		started = true;
		cur = (cur << 7) | (b & 0x7f) as u128;
		if cur > (u64::MAX as u128) + 80 {
			return Err("OID subidentifier too large".into());
		}
		if b & 0x80 == 0 {
			subs.push(cur);
			cur = 0;
			started = false;
		} else if k == content.len() - 1 {
			return Err("OID ends inside a subidentifier".into());
		}
	}
	let first = subs[0];
	let (a, b) = if first < 40 {
		(0u128, first)
	} else if first < 80 {
		(1, first - 40)
	} else {
		(2, first - 80)
	};
	let mut out = vec![a as u64, b as u64];
	for s in &subs[1..] {
		if *s > u64::MAX as u128 {
			return Err("OID arc too large".into());
		}
		out.push(*s as u64);
	}
	Ok(out)
}

/// Independent DER encoder for an OID arc list (used to build expectations).
pub fn encode_oid_content(arcs: &[u64]) -> Vec<u8> {
	let mut out = Vec::new();
	let first = arcs[0] as u128 * 40 + arcs[1] as u128;
	let mut push = |v: u128| {
		let mut tmp = vec![(v & 0x7f) as u8];
		let mut v = v >> 7;
		while v > 0 {
			tmp.push(0x80 | (v & 0x7f) as u8);
			v >>= 7;
		}
		tmp.reverse();
		out.extend(tmp);
	};
	push(first);
	for a in &arcs[2..] {
		push(*a as u128);
	}
	out
}

pub fn is_printable_char(b: u8) -> bool {
	b.is_ascii_alphanumeric() || b" '()+,-./:=?".contains(&b)
}

fn check_time_text(s: &[u8], year_digits: usize) -> R<()> {
	let n = year_digits + 10 + 1;
	if s.len() != n {
		return Err(format!("time value has length {} (expected {})", s.len(), n));
	}
	if s[n - 1] != b'Z' {
		return Err("time value does not end in Z".into());
	}
	if !s[..n - 1].iter().all(|c| c.is_ascii_digit()) {
		return Err("time value contains a non-digit".into());
	}
	let num = |a: usize, b: usize| -> i64 {
		std::str::from_utf8(&s[a..b]).unwrap().parse::<i64>().unwrap()
	};
	let y = year_digits;
	let (mo, d, h, mi, se) = (num(y, y + 2), num(y + 2, y + 4), num(y + 4, y + 6), num(y + 6, y + 8), num(y + 8, y + 10));
	if !(1..=12).contains(&mo) || !(1..=31).contains(&d) || h > 23 || mi > 59 || se > 59 {
		return Err("time value has an out-of-range component".into());
	}
	Ok(())
}

/// Decode the instant of a UTCTime / GeneralizedTime (already format-checked) to unix seconds.
pub fn time_to_unix(tag: u32, s: &[u8]) -> R<i64> {
	let yd = if tag == UTCTIME { 2 } else { 4 };
	check_time_text(s, yd)?;
	let num = |a: usize, b: usize| -> i64 {
		std::str::from_utf8(&s[a..b]).unwrap().parse::<i64>().unwrap()
	};
	let mut year = num(0, yd);
	if tag == UTCTIME {
		year += if year >= 50 { 1900 } else { 2000 };
	}
	let (mo, d, h, mi, se) = (num(yd, yd + 2), num(yd + 2, yd + 4), num(yd + 4, yd + 6), num(yd + 6, yd + 8), num(yd + 8, yd + 10));
	// reject impossible calendar dates such as Feb 30 by round-tripping
	let t = crate::util::unix_from_civil(year, mo, d, h, mi, se);
	let back = crate::util::civil_from_unix(t);
	if back != (year, mo, d, h, mi, se) {
		return Err("time value is not a valid calendar date".into());
	}
	Ok(t)
}

/// Value-level DER rules for one element (not recursive).
pub fn check_value(t: &Tlv<'_>) -> R<()> {
	if t.class != 0 {
		return Ok(());
	}
	let c = t.content;
	let prim = |name: &str| -> R<()> {
		if t.constructed {
			Err(format!("{} must be primitive in DER", name))
		} else {
			Ok(())
		}
	};
	match t.tag {
		BOOLEAN => {
			prim("BOOLEAN")?;
			if c.len() != 1 {
				return Err("BOOLEAN length != 1".into());
			}
			if c[0] != 0 && c[0] != 0xff {
				return Err(format!("BOOLEAN TRUE encoded as 0x{:02x}", c[0]));
			}
		},
		INTEGER | ENUMERATED => {
			prim("INTEGER")?;
			if c.is_empty() {
				return Err("INTEGER with empty content".into());
			}
			if c.len() > 1 && ((c[0] == 0 && c[1] & 0x80 == 0) || (c[0] == 0xff && c[1] & 0x80 != 0)) {
				return Err("INTEGER not minimally encoded".into());
			}
		},
		BIT_STRING => {
			prim("BIT STRING")?;
			if c.is_empty() {
				return Err("BIT STRING without unused-bits octet".into());
			}
			if c[0] > 7 {
				return Err("BIT STRING unused bits > 7".into());
			}
			if c.len() == 1 && c[0] != 0 {
				return Err("empty BIT STRING with unused bits".into());
			}
			if c.len() > 1 {
				let last = c[c.len() - 1];
				if last & ((1u16 << c[0]) - 1) as u8 != 0 {
					return Err("BIT STRING padding bits not zero".into());
				}
			}
		},
		OCTET_STRING => prim("OCTET STRING")?,
		NULL => {
			prim("NULL")?;
			if !c.is_empty() {
				return Err("NULL with content".into());
			}
		},
		OID => {
			prim("OID")?;
			oid_wellformed(c)?;
		},
		UTF8 => {
			prim("UTF8String")?;
			std::str::from_utf8(c).map_err(|_| "UTF8String is not valid UTF-8".to_string())?;
		},
		SEQUENCE => {
			if !t.constructed {
				return Err("SEQUENCE must be constructed".into());
			}
		},
		SET => {
			if !t.constructed {
				return Err("SET must be constructed".into());
			}
		},
		PRINTABLE => {
			prim("PrintableString")?;
			if let Some(b) = c.iter().find(|b| !is_printable_char(**b)) {
				return Err(format!("PrintableString contains 0x{:02x}", b));
			}
		},
		IA5 => {
			prim("IA5String")?;
			if let Some(b) = c.iter().find(|b| **b > 0x7f) {
				return Err(format!("IA5String contains 0x{:02x}", b));
			}
		},
		TELETEX => {
			prim("TeletexString")?;
			if let Some(b) = c.iter().find(|b| !(0x20..=0x7f).contains(*b)) {
				return Err(format!("TeletexString contains 0x{:02x}", b));
			}
		},
		BMP => {
			prim("BMPString")?;
			if c.len() % 2 != 0 {
				return Err("BMPString with odd length".into());
			}
			for ch in c.chunks(2) {
				let u = u16::from_be_bytes([ch[0], ch[1]]);
				if (0xd800..=0xdfff).contains(&u) || u == 0xffff {
					return Err(format!("BMPString contains code unit 0x{:04x}", u));
				}
			}
		},
		UNIVERSAL => {
			prim("UniversalString")?;
			if c.len() % 4 != 0 {
				return Err("UniversalString length not a multiple of 4".into());
			}
			for ch in c.chunks(4) {
				let u = u32::from_be_bytes([ch[0], ch[1], ch[2], ch[3]]);
				if char::from_u32(u).is_none() {
					return Err(format!("UniversalString contains 0x{:08x}", u));
				}
			}
		},
		UTCTIME => {
			prim("UTCTime")?;
			check_time_text(c, 2)?;
			time_to_unix(UTCTIME, c)?;
		},
		GENTIME => {
			prim("GeneralizedTime")?;
			check_time_text(c, 4)?;
			time_to_unix(GENTIME, c)?;
		},
		_ => {},
	}
	Ok(())
}

/// Recursive canonicity walk of a complete element. Appends one message per broken rule.
/// `path` is a human-readable location prefix.
pub fn check_canonical(input: &[u8], path: &str, errs: &mut Vec<String>) {
	match parse_exact(input, true) {
		Err(e) => errs.push(format!("{}: {}", path, e)),
		Ok(t) => walk(&t, path, errs, 0),
	}
}

pub fn walk(t: &Tlv<'_>, path: &str, errs: &mut Vec<String>, depth: usize) {
	if depth > 64 {
		errs.push(format!("{}: nesting too deep", path));
		return;
	}
	if let Err(e) = check_value(t) {
		errs.push(format!("{}: {}", path, e));
	}
	if t.constructed {
		match parse_all(t.content, true) {
			Err(e) => errs.push(format!("{}: {}", path, e)),
			Ok(kids) => {
				if t.is_univ(SET) {
					// SET OF: elements sorted by their encodings (X.690 11.6)
					for w in kids.windows(2) {
						if w[0].raw > w[1].raw {
							errs.push(format!("{}: SET OF elements not sorted", path));
							break;
						}
					}
				}
				// AlgorithmIdentifier of RSASSA-PSS: the four parameters have DEFAULT values (RFC 4055 3.1),
				// which DER wants omitted: [0] sha1, [1] mgf1SHA1, [2] saltLength 20, [3] trailerField 1
				const PSS: &[u8] = &[0x2a, 0x86, 0x48, 0x86, 0xf7, 0x0d, 0x01, 0x01, 0x0a];
				const SHA1: &[u8] = &[0x2b, 0x0e, 0x03, 0x02, 0x1a];
				if t.is_univ(SEQUENCE) && kids.len() == 2 && kids[0].is_univ(OID) && kids[0].content == PSS && kids[1].is_univ(SEQUENCE) {
					for p in parse_all(kids[1].content, true).unwrap_or_default() {
						let inner = parse_all(p.content, true).unwrap_or_default();
						let first_oid = |v: &[Tlv<'_>]| v.first().and_then(|s| parse_all(s.content, true).ok()).and_then(|x| x.first().map(|o| o.content.to_vec()));
						let is_default = match (p.class, p.tag) {
							(2, 0) => first_oid(&inner).as_deref() == Some(SHA1),
							(2, 1) => inner.first().and_then(|s| parse_all(s.content, true).ok()).map_or(false, |x| x.len() == 2 && parse_all(x[1].content, true).ok().and_then(|y| y.first().map(|o| o.content == SHA1)).unwrap_or(false)),
							(2, 2) => inner.first().map_or(false, |i| i.is_univ(INTEGER) && i.content == [20]),
							(2, 3) => inner.first().map_or(false, |i| i.is_univ(INTEGER) && i.content == [1]),
							_ => false,
						};
						if is_default {
							errs.push(format!("{}: RSASSA-PSS parameter [{}] encodes its DEFAULT value", path, p.tag));
						}
					}
				}
				for (i, k) in kids.iter().enumerate() {
					walk(k, &format!("{}/{}", path, i), errs, depth + 1);
				}
			},
		}
	}
}

#[cfg(test)]
mod tests {
	use super::*;
	fn canon(b: &[u8]) -> Vec<String> {
		let mut e = Vec::new();
		check_canonical(b, "t", &mut e);
		e
	}
	#[test]
	fn accepts_and_rejects() {
		assert!(canon(&[0x30, 0x03, 0x01, 0x01, 0xff]).is_empty());
		assert!(!canon(&[0x30, 0x03, 0x01, 0x01, 0x01]).is_empty()); // TRUE as 01
		assert!(!canon(&[0x30, 0x81, 0x03, 0x01, 0x01, 0xff]).is_empty()); // long form < 128
		assert!(!canon(&[0x02, 0x02, 0x00, 0x01]).is_empty()); // non-minimal INTEGER
		assert!(canon(&[0x02, 0x02, 0x00, 0x80]).is_empty());
		assert!(!canon(&[0x03, 0x02, 0x01, 0x81]).is_empty()); // padding not zero
		assert!(!canon(&[0x06, 0x03, 0x55, 0x80, 0x01]).is_empty()); // leading 0x80 in subid
		assert!(!canon(&[0x31, 0x06, 0x02, 0x01, 0x02, 0x02, 0x01, 0x01]).is_empty()); // unsorted set
		assert!(!canon(&[0x17, 0x0b, b'2', b'0', b'0', b'1', b'0', b'1', b'0', b'0', b'0', b'0', b'Z']).is_empty()); // no seconds
		assert!(!canon(b"\x18\x1120200101000000.5Z").is_empty()); // fraction
		// RSASSA-PSS AlgorithmIdentifier with saltLength [2] = 20 (the DEFAULT)
		assert!(!canon(&[0x30, 0x12, 0x06, 0x09, 0x2a, 0x86, 0x48, 0x86, 0xf7, 0x0d, 0x01, 0x01, 0x0a, 0x30, 0x05, 0xa2, 0x03, 0x02, 0x01, 0x14]).is_empty());
		assert!(canon(&[0x30, 0x12, 0x06, 0x09, 0x2a, 0x86, 0x48, 0x86, 0xf7, 0x0d, 0x01, 0x01, 0x0a, 0x30, 0x05, 0xa2, 0x03, 0x02, 0x01, 0x20]).is_empty());
		assert!(canon(b"\x18\x0f20200101000000Z").is_empty());
		assert!(!canon(&[0x30, 0x80, 0x00, 0x00]).is_empty()); // indefinite
		assert!(!canon(&[0x05, 0x00, 0x00]).is_empty()); // trailing
		assert_eq!(decode_oid(&encode_oid_content(&[2, 5, 29, 15])).unwrap(), vec![2, 5, 29, 15]);
		assert_eq!(decode_oid(&encode_oid_content(&[2, 999, u64::MAX])).unwrap(), vec![2, 999, u64::MAX]);
		assert_eq!(encode_oid_content(&[1, 2, 840, 113549, 1, 1, 11]), vec![0x2a, 0x86, 0x48, 0x86, 0xf7, 0x0d, 0x01, 0x01, 0x0b]);
	}
}
