//! `ParamSpec`: the harness's own plain description of a certificate request. From it we derive
//! both the `rcgen::CertificateParams` (public constructors and fields only) and, independently,
//! the content the decoded certificate must have.

use std::net::{IpAddr, Ipv4Addr, Ipv6Addr};

use rcgen::string::{BmpString, Ia5String, PrintableString, TeletexString, UniversalString};
use rcgen::{
	BasicConstraints, CertificateParams, CidrSubnet, CrlDistributionPoint, CustomExtension,
	DistinguishedName, DnType, DnValue, ExtendedKeyUsagePurpose, GeneralSubtree, IsCa, KeyIdMethod,
	KeyUsagePurpose, NameConstraints, SanType, SerialNumber,
};
use time::{OffsetDateTime, UtcOffset};

use crate::derx;
use crate::util::Rng;

#[derive(Clone, Copy, Debug, PartialEq, Eq, Hash)]
pub enum StrKind {
	Utf8,
	Printable,
	Ia5,
	Teletex,
	Bmp,
	Universal,
}

pub const ALL_KINDS: [StrKind; 6] = [
	StrKind::Utf8,
	StrKind::Printable,
	StrKind::Ia5,
	StrKind::Teletex,
	StrKind::Bmp,
	StrKind::Universal,
];

impl StrKind {
	pub fn tag(self) -> u32 {
		match self {
			StrKind::Utf8 => derx::UTF8,
			StrKind::Printable => derx::PRINTABLE,
			StrKind::Ia5 => derx::IA5,
			StrKind::Teletex => derx::TELETEX,
			StrKind::Bmp => derx::BMP,
			StrKind::Universal => derx::UNIVERSAL,
		}
	}
	/// alphabet predicate transcribed from the property text (C13)
	pub fn admits(self, c: char) -> bool {
		let u = c as u32;
		match self {
			StrKind::Utf8 | StrKind::Universal => true,
			StrKind::Printable => u < 128 && derx::is_printable_char(u as u8),
			StrKind::Ia5 => u <= 0x7f,
			StrKind::Teletex => (0x20..=0x7f).contains(&u),
			StrKind::Bmp => u <= 0xfffe,
		}
	}
	/// independent transfer encoding
	pub fn encode(self, s: &str) -> Vec<u8> {
		match self {
			StrKind::Bmp => s.chars().flat_map(|c| (c as u32 as u16).to_be_bytes()).collect(),
			StrKind::Universal => s.chars().flat_map(|c| (c as u32).to_be_bytes()).collect(),
			_ => s.as_bytes().to_vec(),
		}
	}
}

#[derive(Clone, Debug, PartialEq, Eq, Hash)]
pub enum DnTy {
	Country,
	Locality,
	State,
	Org,
	OrgUnit,
	Cn,
	Custom(Vec<u64>),
}

pub const STD_TYPES: [DnTy; 6] = [DnTy::Country, DnTy::Locality, DnTy::State, DnTy::Org, DnTy::OrgUnit, DnTy::Cn];

impl DnTy {
	pub fn oid(&self) -> Vec<u64> {
		match self {
			DnTy::Country => vec![2, 5, 4, 6],
			DnTy::Locality => vec![2, 5, 4, 7],
			DnTy::State => vec![2, 5, 4, 8],
			DnTy::Org => vec![2, 5, 4, 10],
			DnTy::OrgUnit => vec![2, 5, 4, 11],
			DnTy::Cn => vec![2, 5, 4, 3],
			DnTy::Custom(o) => o.clone(),
		}
	}
	pub fn to_rcgen(&self) -> DnType {
		match self {
			DnTy::Country => DnType::CountryName,
			DnTy::Locality => DnType::LocalityName,
			DnTy::State => DnType::StateOrProvinceName,
			DnTy::Org => DnType::OrganizationName,
			DnTy::OrgUnit => DnType::OrganizationalUnitName,
			DnTy::Cn => DnType::CommonName,
			DnTy::Custom(o) => DnType::CustomDnType(o.clone()),
		}
	}
}

#[derive(Clone, Debug, PartialEq, Eq, Hash)]
pub struct AttrSpec {
	pub ty: DnTy,
	pub kind: StrKind,
	pub text: String,
}

pub type NameSpec = Vec<AttrSpec>;

pub fn dn_value(kind: StrKind, text: &str) -> DnValue {
	match kind {
		StrKind::Utf8 => DnValue::Utf8String(text.to_string()),
		StrKind::Printable => DnValue::PrintableString(PrintableString::try_from(text).expect("printable")),
		StrKind::Ia5 => DnValue::Ia5String(Ia5String::try_from(text).expect("ia5")),
		StrKind::Teletex => DnValue::TeletexString(TeletexString::try_from(text).expect("teletex")),
		StrKind::Bmp => DnValue::BmpString(BmpString::try_from(text).expect("bmp")),
		StrKind::Universal => DnValue::UniversalString(UniversalString::try_from(text).expect("universal")),
	}
}

/// like `dn_value`, but reports rcgen's own verdict instead of insisting on the model's
pub fn try_dn_value(kind: StrKind, text: &str) -> Option<DnValue> {
	Some(match kind {
		StrKind::Utf8 => DnValue::Utf8String(text.to_string()),
		StrKind::Printable => DnValue::PrintableString(PrintableString::try_from(text).ok()?),
		StrKind::Ia5 => DnValue::Ia5String(Ia5String::try_from(text).ok()?),
		StrKind::Teletex => DnValue::TeletexString(TeletexString::try_from(text).ok()?),
		StrKind::Bmp => DnValue::BmpString(BmpString::try_from(text).ok()?),
		StrKind::Universal => DnValue::UniversalString(UniversalString::try_from(text).ok()?),
	})
}

/// Build the name. Half of the names (chosen by a hash of the content, so that every build and
/// every process agrees) are reached through an *edit history* instead of plain pushes: a decoy
/// attribute pushed first and removed at the end, or an attribute first pushed with another value
/// and pushed again later (which replaces the value in place). The resulting name is the same
/// insertion-ordered map; code that looks at stale internal state of the name sees something else.
pub fn name_to_rcgen(n: &NameSpec) -> DistinguishedName {
	let mut dn = DistinguishedName::new();
	let decoy = DnType::CustomDnType(vec![2, 5, 4, 97, 1]);
	let has_decoy = n.iter().any(|a| a.ty.to_rcgen() == decoy);
	let distinct_types = {
		let mut t: Vec<String> = n.iter().map(|a| format!("{:?}", a.ty)).collect();
		t.sort();
		t.windows(2).all(|w| w[0] != w[1])
	};
	let h = if has_decoy || !distinct_types { 0 } else { crate::util::fnv64(format!("{:?}", n).as_bytes()) % 4 };
	match h {
		2 => {
			dn.push(decoy.clone(), DnValue::Utf8String("decoy".into()));
			for a in n {
				dn.push(a.ty.to_rcgen(), dn_value(a.kind, &a.text));
			}
			dn.remove(decoy);
		},
		3 => {
			for (i, a) in n.iter().enumerate() {
				if i == 0 {
					dn.push(a.ty.to_rcgen(), DnValue::Utf8String("first value, replaced later".into()));
				} else {
					dn.push(a.ty.to_rcgen(), dn_value(a.kind, &a.text));
				}
			}
			dn.push(decoy.clone(), DnValue::PrintableString(PrintableString::try_from("decoy").expect("printable")));
			if let Some(a) = n.first() {
				dn.push(a.ty.to_rcgen(), dn_value(a.kind, &a.text));
			}
			dn.remove(decoy);
		},
		_ => {
			for a in n {
				dn.push(a.ty.to_rcgen(), dn_value(a.kind, &a.text));
			}
		},
	}
	dn
}

#[derive(Clone, Debug, PartialEq, Eq, Hash)]
pub enum SanSpec {
	Email(String),
	Dns(String),
	Uri(String),
	Ip(IpAddr),
	Other(Vec<u64>, String),
}

impl SanSpec {
	pub fn to_rcgen(&self) -> SanType {
		match self {
			SanSpec::Email(s) => SanType::Rfc822Name(Ia5String::try_from(s.as_str()).expect("ia5")),
			SanSpec::Dns(s) => SanType::DnsName(Ia5String::try_from(s.as_str()).expect("ia5")),
			SanSpec::Uri(s) => SanType::URI(Ia5String::try_from(s.as_str()).expect("ia5")),
			SanSpec::Ip(ip) => SanType::IpAddress(*ip),
			SanSpec::Other(oid, s) => SanType::OtherName((oid.clone(), s.as_str().into())),
		}
	}
	/// canonical comparison key, from the spec side
	pub fn key(&self) -> String {
		match self {
			SanSpec::Email(s) => format!("email:{}", crate::util::hex(s.as_bytes())),
			SanSpec::Dns(s) => format!("dns:{}", crate::util::hex(s.as_bytes())),
			SanSpec::Uri(s) => format!("uri:{}", crate::util::hex(s.as_bytes())),
			SanSpec::Ip(IpAddr::V4(a)) => format!("ip:{}", crate::util::hex(&a.octets())),
			SanSpec::Ip(IpAddr::V6(a)) => format!("ip:{}", crate::util::hex(&a.octets())),
			SanSpec::Other(oid, s) => {
				// otherName value: [0] EXPLICIT UTF8String
				let mut v = vec![0x0c];
				v.extend(der_len(s.len()));
				v.extend(s.as_bytes());
				format!("other:{:?}:{}", oid, crate::util::hex(&v))
			},
		}
	}
}

pub fn is_printable(b: u8) -> bool {
	derx::is_printable_char(b)
}

pub fn der_len(n: usize) -> Vec<u8> {
	if n < 128 {
		vec![n as u8]
	} else {
		let b: Vec<u8> = n.to_be_bytes().iter().skip_while(|x| **x == 0).cloned().collect();
		let mut v = vec![0x80 | b.len() as u8];
		v.extend(b);
		v
	}
}

/// comparison key of a decoded GeneralName (same scheme as the spec side)
pub fn gn_key(g: &crate::x509::GeneralName) -> String {
	use crate::x509::GeneralName as G;
	match g {
		G::Rfc822(b) => format!("email:{}", crate::util::hex(b)),
		G::Dns(b) => format!("dns:{}", crate::util::hex(b)),
		G::Uri(b) => format!("uri:{}", crate::util::hex(b)),
		G::Ip(b) => format!("ip:{}", crate::util::hex(b)),
		G::Other { oid, value } => format!("other:{:?}:{}", oid, crate::util::hex(value)),
		G::Dir(n) => format!("dir:{}", name_key(n)),
		G::Unknown(t, raw) => format!("unknown:{}:{}", t, crate::util::hex(raw)),
	}
}

pub fn name_key(n: &crate::x509::Name) -> String {
	n.rdns
		.iter()
		.map(|rdn| {
			rdn.iter()
				.map(|a| format!("{}/{}/{}", crate::util::hex(&a.oid_raw), a.tag, crate::util::hex(&a.bytes)))
				.collect::<Vec<_>>()
				.join("+")
		})
		.collect::<Vec<_>>()
		.join(",")
}

pub fn name_spec_key(n: &NameSpec) -> String {
	n.iter()
		.map(|a| format!("{}/{}/{}", crate::util::hex(&derx::encode_oid_content(&a.ty.oid())), a.kind.tag(), crate::util::hex(&a.kind.encode(&a.text))))
		.collect::<Vec<_>>()
		.join(",")
}

#[derive(Clone, Debug, PartialEq, Eq, Hash)]
pub struct CidrSpec {
	pub addr: Vec<u8>,
	pub prefix: u8,
	/// 0 from_v4/v6_prefix, 1 from_addr_prefix, 2 from_str, 3 explicit (addr, mask) variant,
	/// 4 explicit variant with a mask that is NOT a prefix (one bit of the prefix mask moved): the API
	/// takes any mask, and what is given is what must be written and read back
	pub ctor: u8,
}

impl CidrSpec {
	pub fn width(&self) -> usize {
		self.addr.len() * 8
	}
	/// model: the first min(prefix, width) bits set
	pub fn mask(&self) -> Vec<u8> {
		let p = (self.prefix as usize).min(self.width());
		let mut m: Vec<u8> = (0..self.addr.len())
			.map(|i| {
				let bits = p.saturating_sub(i * 8).min(8);
				if bits == 0 {
					0
				} else {
					(0xffu16 << (8 - bits)) as u8
				}
			})
			.collect();
		if self.ctor == 4 {
			if p >= 3 {
				// 1 0 1 ...: a hole in the second bit
				m[0] &= !0x40;
			} else {
				// a lone bit at the far end
				let last = m.len() - 1;
				m[last] |= 0x01;
			}
		}
		m
	}
	pub fn expected_bytes(&self) -> Vec<u8> {
		let mut v = self.addr.clone();
		v.extend(self.mask());
		v
	}
	pub fn ip(&self) -> IpAddr {
		if self.addr.len() == 4 {
			IpAddr::V4(Ipv4Addr::new(self.addr[0], self.addr[1], self.addr[2], self.addr[3]))
		} else {
			let mut a = [0u8; 16];
			a.copy_from_slice(&self.addr);
			IpAddr::V6(Ipv6Addr::from(a))
		}
	}
	pub fn to_rcgen(&self) -> CidrSubnet {
		match self.ctor {
			0 => {
				if self.addr.len() == 4 {
					let mut a = [0u8; 4];
					a.copy_from_slice(&self.addr);
					CidrSubnet::from_v4_prefix(a, self.prefix)
				} else {
					let mut a = [0u8; 16];
					a.copy_from_slice(&self.addr);
					CidrSubnet::from_v6_prefix(a, self.prefix)
				}
			},
			1 => CidrSubnet::from_addr_prefix(self.ip(), self.prefix),
			2 => {
				use std::str::FromStr;
				CidrSubnet::from_str(&format!("{}/{}", self.ip(), self.prefix)).expect("cidr from_str")
			},
			_ => {
				let m = self.mask();
				if self.addr.len() == 4 {
					let mut a = [0u8; 4];
					a.copy_from_slice(&self.addr);
					let mut mm = [0u8; 4];
					mm.copy_from_slice(&m);
					CidrSubnet::V4(a, mm)
				} else {
					let mut a = [0u8; 16];
					a.copy_from_slice(&self.addr);
					let mut mm = [0u8; 16];
					mm.copy_from_slice(&m);
					CidrSubnet::V6(a, mm)
				}
			},
		}
	}
}

#[derive(Clone, Debug, PartialEq, Eq, Hash)]
pub enum SubtreeSpec {
	Email(String),
	Dns(String),
	Dir(NameSpec),
	Ip(CidrSpec),
}

impl SubtreeSpec {
	pub fn to_rcgen(&self) -> GeneralSubtree {
		match self {
			SubtreeSpec::Email(s) => GeneralSubtree::Rfc822Name(s.clone()),
			SubtreeSpec::Dns(s) => GeneralSubtree::DnsName(s.clone()),
			SubtreeSpec::Dir(n) => GeneralSubtree::DirectoryName(name_to_rcgen(n)),
			SubtreeSpec::Ip(c) => GeneralSubtree::IpAddress(c.to_rcgen()),
		}
	}
	pub fn key(&self) -> String {
		match self {
			SubtreeSpec::Email(s) => format!("email:{}", crate::util::hex(s.as_bytes())),
			SubtreeSpec::Dns(s) => format!("dns:{}", crate::util::hex(s.as_bytes())),
			SubtreeSpec::Dir(n) => format!("dir:{}", name_spec_key(n)),
			SubtreeSpec::Ip(c) => format!("ip:{}", crate::util::hex(&c.expected_bytes())),
		}
	}
}

#[derive(Clone, Debug, PartialEq, Eq, Hash)]
pub enum IsCaSpec {
	No,
	ExplicitNo,
	Ca(Option<u8>),
}

#[derive(Clone, Debug, PartialEq, Eq, Hash)]
pub enum KidSpec {
	Sha256,
	Sha384,
	Sha512,
	Pre(Vec<u8>),
}

impl KidSpec {
	pub fn to_rcgen(&self) -> KeyIdMethod {
		match self {
			#[cfg(feature = "crypto")]
			KidSpec::Sha256 => KeyIdMethod::Sha256,
			#[cfg(feature = "crypto")]
			KidSpec::Sha384 => KeyIdMethod::Sha384,
			#[cfg(feature = "crypto")]
			KidSpec::Sha512 => KeyIdMethod::Sha512,
			#[cfg(not(feature = "crypto"))]
			KidSpec::Sha256 | KidSpec::Sha384 | KidSpec::Sha512 => KeyIdMethod::PreSpecified(vec![0x11; 20]),
			KidSpec::Pre(b) => KeyIdMethod::PreSpecified(b.clone()),
		}
	}
	/// expected identifier for a SubjectPublicKeyInfo, computed with OpenSSL's hashes
	#[cfg(feature = "ossl")]
	pub fn derive(&self, spki_der: &[u8]) -> Vec<u8> {
		use openssl::hash::{hash, MessageDigest};
		let md = match self {
			KidSpec::Sha256 => MessageDigest::sha256(),
			KidSpec::Sha384 => MessageDigest::sha384(),
			KidSpec::Sha512 => MessageDigest::sha512(),
			KidSpec::Pre(b) => return b.clone(),
		};
		hash(md, spki_der).expect("hash")[..20].to_vec()
	}
	#[cfg(not(feature = "ossl"))]
	pub fn derive(&self, _spki_der: &[u8]) -> Vec<u8> {
		match self {
			KidSpec::Pre(b) => b.clone(),
			_ => vec![0x11; 20],
		}
	}
}

#[derive(Clone, Debug, PartialEq, Eq, Hash)]
pub enum EkuSpec {
	Any,
	ServerAuth,
	ClientAuth,
	CodeSigning,
	EmailProtection,
	TimeStamping,
	OcspSigning,
	Other(Vec<u64>),
}

pub const STD_EKUS: [EkuSpec; 7] = [
	EkuSpec::Any,
	EkuSpec::ServerAuth,
	EkuSpec::ClientAuth,
	EkuSpec::CodeSigning,
	EkuSpec::EmailProtection,
	EkuSpec::TimeStamping,
	EkuSpec::OcspSigning,
];

impl EkuSpec {
	/// OIDs transcribed from RFC 5280 4.2.1.12 / RFC 3161 / RFC 6960
	pub fn oid(&self) -> Vec<u64> {
		match self {
			EkuSpec::Any => vec![2, 5, 29, 37, 0],
			EkuSpec::ServerAuth => vec![1, 3, 6, 1, 5, 5, 7, 3, 1],
			EkuSpec::ClientAuth => vec![1, 3, 6, 1, 5, 5, 7, 3, 2],
			EkuSpec::CodeSigning => vec![1, 3, 6, 1, 5, 5, 7, 3, 3],
			EkuSpec::EmailProtection => vec![1, 3, 6, 1, 5, 5, 7, 3, 4],
			EkuSpec::TimeStamping => vec![1, 3, 6, 1, 5, 5, 7, 3, 8],
			EkuSpec::OcspSigning => vec![1, 3, 6, 1, 5, 5, 7, 3, 9],
			EkuSpec::Other(o) => o.clone(),
		}
	}
	pub fn to_rcgen(&self) -> ExtendedKeyUsagePurpose {
		match self {
			EkuSpec::Any => ExtendedKeyUsagePurpose::Any,
			EkuSpec::ServerAuth => ExtendedKeyUsagePurpose::ServerAuth,
			EkuSpec::ClientAuth => ExtendedKeyUsagePurpose::ClientAuth,
			EkuSpec::CodeSigning => ExtendedKeyUsagePurpose::CodeSigning,
			EkuSpec::EmailProtection => ExtendedKeyUsagePurpose::EmailProtection,
			EkuSpec::TimeStamping => ExtendedKeyUsagePurpose::TimeStamping,
			EkuSpec::OcspSigning => ExtendedKeyUsagePurpose::OcspSigning,
			EkuSpec::Other(o) => ExtendedKeyUsagePurpose::Other(o.clone()),
		}
	}
}

/// Key usage named bits in RFC 5280 4.2.1.3 order: bit i of the mask <=> named bit i
pub const KU_ALL: [KeyUsagePurpose; 9] = [
	KeyUsagePurpose::DigitalSignature,
	KeyUsagePurpose::ContentCommitment,
	KeyUsagePurpose::KeyEncipherment,
	KeyUsagePurpose::DataEncipherment,
	KeyUsagePurpose::KeyAgreement,
	KeyUsagePurpose::KeyCertSign,
	KeyUsagePurpose::CrlSign,
	KeyUsagePurpose::EncipherOnly,
	KeyUsagePurpose::DecipherOnly,
];

pub fn ku_to_rcgen(mask: u16, rng: Option<&mut Rng>) -> Vec<KeyUsagePurpose> {
	let mut v: Vec<KeyUsagePurpose> = (0..9).filter(|i| mask & (1 << i) != 0).map(|i| KU_ALL[i]).collect();
	if let Some(r) = rng {
		r.shuffle(&mut v);
		if !v.is_empty() && r.chance(1, 8) {
			let d = *r.pick(&v);
			v.push(d);
		}
	}
	v
}

pub fn ku_mask_of(v: &[KeyUsagePurpose]) -> u16 {
	let mut m = 0;
	for k in v {
		m |= 1 << KU_ALL.iter().position(|x| x == k).unwrap();
	}
	m
}

#[derive(Clone, Debug, PartialEq, Eq, Hash)]
pub struct TimeSpec {
	/// instant: unix seconds + nanos, expressed with `offset` seconds east of UTC
	pub unix: i64,
	pub nanos: u32,
	pub offset: i32,
}

impl TimeSpec {
	pub fn utc(unix: i64) -> Self {
		TimeSpec { unix, nanos: 0, offset: 0 }
	}
	/// None if the `time` crate cannot represent the local date (year outside ±9999)
	pub fn to_time(&self) -> Option<OffsetDateTime> {
		let t = OffsetDateTime::from_unix_timestamp(self.unix).ok()?;
		let t = t.replace_nanosecond(self.nanos).ok()?;
		let off = UtcOffset::from_whole_seconds(self.offset).ok()?;
		t.checked_to_offset(off)
	}
}

#[derive(Clone, Debug, PartialEq, Eq, Hash)]
pub struct CustomExtSpec {
	pub oid: Vec<u64>,
	pub critical: bool,
	pub content: Vec<u8>,
}

#[derive(Clone, Debug, PartialEq, Eq, Hash)]
pub struct ParamSpec {
	pub not_before: TimeSpec,
	pub not_after: TimeSpec,
	pub serial: Option<Vec<u8>>,
	pub sans: Vec<SanSpec>,
	pub subject: NameSpec,
	pub is_ca: IsCaSpec,
	pub ku: u16,
	pub ekus: Vec<EkuSpec>,
	pub nc: Option<(Vec<SubtreeSpec>, Vec<SubtreeSpec>)>,
	pub crldp: Vec<Vec<String>>,
	pub custom: Vec<CustomExtSpec>,
	pub use_aki: bool,
	pub kid: KidSpec,
}

impl ParamSpec {
	pub fn minimal() -> Self {
		ParamSpec {
			not_before: TimeSpec::utc(1_600_000_000),
			not_after: TimeSpec::utc(4_000_000_000),
			serial: None,
			sans: vec![],
			subject: vec![AttrSpec {
				ty: DnTy::Cn,
				kind: StrKind::Utf8,
				text: "verif".into(),
			}],
			is_ca: IsCaSpec::No,
			ku: 0,
			ekus: vec![],
			nc: None,
			crldp: vec![],
			custom: vec![],
			use_aki: false,
			kid: default_kid(),
		}
	}

	pub fn to_rcgen(&self, rng: Option<&mut Rng>) -> CertificateParams {
		let mut p = CertificateParams::default();
		p.not_before = self.not_before.to_time().expect("constructible not_before");
		p.not_after = self.not_after.to_time().expect("constructible not_after");
		p.serial_number = self.serial.as_ref().map(|b| SerialNumber::from_slice(b));
		p.subject_alt_names = self.sans.iter().map(|s| s.to_rcgen()).collect();
		p.distinguished_name = name_to_rcgen(&self.subject);
		p.is_ca = match &self.is_ca {
			IsCaSpec::No => IsCa::NoCa,
			IsCaSpec::ExplicitNo => IsCa::ExplicitNoCa,
			IsCaSpec::Ca(None) => IsCa::Ca(BasicConstraints::Unconstrained),
			IsCaSpec::Ca(Some(n)) => IsCa::Ca(BasicConstraints::Constrained(*n)),
		};
		p.key_usages = ku_to_rcgen(self.ku, rng);
		p.extended_key_usages = self.ekus.iter().map(|e| e.to_rcgen()).collect();
		p.name_constraints = self.nc.as_ref().map(|(a, b)| NameConstraints {
			permitted_subtrees: a.iter().map(|s| s.to_rcgen()).collect(),
			excluded_subtrees: b.iter().map(|s| s.to_rcgen()).collect(),
		});
		p.crl_distribution_points = self
			.crldp
			.iter()
			.map(|u| CrlDistributionPoint { uris: u.clone() })
			.collect();
		p.custom_extensions = self
			.custom
			.iter()
			.map(|c| {
				let mut e = CustomExtension::from_oid_content(&c.oid, c.content.clone());
				e.set_criticality(c.critical);
				e
			})
			.collect();
		p.use_authority_key_identifier_extension = self.use_aki;
		p.key_identifier_method = self.kid.to_rcgen();
		p
	}

	/// true if anything other than the defaults is exercised (for distinct_nontrivial)
	pub fn nontrivial(&self) -> bool {
		self.serial.is_some()
			|| !self.sans.is_empty()
			|| self.subject.len() != 1
			|| self.is_ca != IsCaSpec::No
			|| self.ku != 0
			|| !self.ekus.is_empty()
			|| self.nc.is_some()
			|| !self.crldp.is_empty()
			|| !self.custom.is_empty()
			|| self.use_aki
	}

	pub fn hash(&self) -> u64 {
		crate::util::fnv64(format!("{:?}", self).as_bytes())
	}
}

pub fn default_kid() -> KidSpec {
	if cfg!(feature = "crypto") {
		KidSpec::Sha256
	} else {
		KidSpec::Pre(vec![0x11; 20])
	}
}

// ------------------------------------------------------------------ generators

const BOUNDARY_CHARS: &[char] = &[
	'\u{0}', '\u{1f}', ' ', '!', '"', '*', '?', '@', '_', '~', '\u{7f}', '\u{80}', '\u{ff}', '\u{100}', '\u{7ff}',
	'\u{800}', '\u{d7ff}', '\u{e000}', '\u{fffd}', '\u{fffe}', '\u{ffff}', '\u{10000}', '\u{10ffff}', 'é', 'ß', '日', '🔒',
];

pub fn gen_char(rng: &mut Rng, kind: StrKind) -> char {
	for _ in 0..64 {
		let c = match rng.below(10) {
			0..=1 => *rng.pick(BOUNDARY_CHARS),
			2..=6 => (0x20 + rng.below(0x5f) as u8) as char,
			7 => char::from_u32(rng.below(0x80) as u32).unwrap(),
			8 => char::from_u32(rng.below(0x10000) as u32).unwrap_or('x'),
			_ => char::from_u32(rng.below(0x110000) as u32).unwrap_or('y'),
		};
		if kind.admits(c) {
			return c;
		}
	}
	'a'
}

pub fn gen_text(rng: &mut Rng, kind: StrKind, max: usize) -> String {
	let n = match rng.below(20) {
		0 => 0,
		1 => max,
		2 => 1,
		_ => rng.below(max.min(24) as u64 + 1) as usize,
	};
	(0..n).map(|_| gen_char(rng, kind)).collect()
}

pub fn gen_ascii(rng: &mut Rng, max: usize) -> String {
	gen_text(rng, StrKind::Ia5, max)
}

pub fn gen_host(rng: &mut Rng) -> String {
	let labels = 1 + rng.below(4);
	let mut s = String::new();
	for i in 0..labels {
		if i > 0 {
			s.push('.');
		}
		let n = 1 + rng.below(10);
		for _ in 0..n {
			s.push((b'a' + rng.below(26) as u8) as char);
		}
	}
	s
}

/// Host-like text with the features that invite "normalisation": upper case, digits, hyphens,
/// underscores, a wildcard label, a leading or trailing dot, punycode, an empty label.
pub fn gen_host_odd(rng: &mut Rng) -> String {
	let mut s = gen_host(rng);
	for _ in 0..1 + rng.below(2) {
		match rng.below(10) {
			0 => s = s.to_uppercase(),
			1 => {
				// mixed case
				s = s.chars().enumerate().map(|(i, c)| if i % 2 == 0 { c.to_ascii_uppercase() } else { c }).collect();
			},
			2 => s.push('.'),
			3 => s.insert(0, '.'),
			4 => s = format!("*.{}", s),
			5 => s = format!("xn--{}", s),
			6 => s = format!("{}-{}_{}", s, rng.below(1000), rng.below(10)),
			7 => s = s.replacen('.', "..", 1),
			8 => s = format!("{}.{}", rng.below(256), s),
			_ => s = format!("{} ", s),
		}
	}
	s
}

pub fn gen_oid(rng: &mut Rng) -> Vec<u64> {
	let first = rng.below(3);
	let second = if first < 2 {
		rng.below(40)
	} else {
		match rng.below(4) {
			0 => rng.below(40),
			1 => 39 + rng.below(3),
			2 => rng.below(1 << 20),
			_ => 999,
		}
	};
	let mut v = vec![first, second];
	let n = rng.below(7);
	for _ in 0..n {
		v.push(match rng.below(8) {
			0 => 0,
			1 => 127,
			2 => 128,
			3 => 16383 + rng.below(3),
			4 => u32::MAX as u64,
			5 => u64::MAX,
			_ => rng.below(100_000),
		});
	}
	v
}

/// OIDs that rcgen writes itself or maps to standard attribute types (to be avoided for "custom")
pub fn reserved_oid(o: &[u64]) -> bool {
	(o.len() == 4 && o[..3] == [2, 5, 29]) || (o.len() == 4 && o[..3] == [2, 5, 4]) || o == [2, 5, 29, 37, 0]
}

pub fn gen_custom_oid(rng: &mut Rng) -> Vec<u64> {
	loop {
		let o = gen_oid(rng);
		if !reserved_oid(&o) {
			return o;
		}
	}
}

pub fn gen_name(rng: &mut Rng, max_attrs: usize) -> NameSpec {
	let n = match rng.below(10) {
		0 => 0,
		1 => max_attrs,
		_ => 1 + rng.below(max_attrs.max(1) as u64) as usize,
	};
	let mut out: NameSpec = Vec::new();
	let mut tries = 0;
	while out.len() < n && tries < 100 {
		tries += 1;
		let ty = if rng.chance(3, 4) {
			rng.pick(&STD_TYPES).clone()
		} else {
			DnTy::Custom(gen_custom_oid(rng))
		};
		if out.iter().any(|a| a.ty.oid() == ty.oid()) {
			continue;
		}
		let kind = *rng.pick(&ALL_KINDS);
		let text = gen_text(rng, kind, 64);
		out.push(AttrSpec { ty, kind, text });
	}
	out
}

pub fn gen_ip(rng: &mut Rng) -> IpAddr {
	// special forms that "normalising" code likes to rewrite
	if rng.chance(1, 6) {
		let b = rng.bytes(4);
		let v4 = Ipv4Addr::new(b[0], b[1], b[2], b[3]);
		return match rng.below(6) {
			0 => IpAddr::V6(v4.to_ipv6_mapped()),
			1 => IpAddr::V6(Ipv6Addr::new(0, 0, 0, 0, 0, 0, ((b[0] as u16) << 8) | b[1] as u16, ((b[2] as u16) << 8) | b[3] as u16)),
			2 => IpAddr::V6(Ipv6Addr::LOCALHOST),
			3 => IpAddr::V6(Ipv6Addr::UNSPECIFIED),
			4 => IpAddr::V4(Ipv4Addr::UNSPECIFIED),
			_ => IpAddr::V4(Ipv4Addr::BROADCAST),
		};
	}
	if rng.chance(1, 2) {
		let b = rng.bytes(4);
		IpAddr::V4(Ipv4Addr::new(b[0], b[1], b[2], b[3]))
	} else {
		let b = rng.bytes(16);
		let mut a = [0u8; 16];
		a.copy_from_slice(&b);
		if rng.chance(1, 4) {
			for x in a.iter_mut().skip(2).take(10) {
				*x = 0;
			}
		}
		IpAddr::V6(Ipv6Addr::from(a))
	}
}

pub fn gen_san(rng: &mut Rng) -> SanSpec {
	match rng.below(6) {
		0 => SanSpec::Email(match rng.below(4) {
			0 | 1 => format!("{}@{}", gen_host(rng), gen_host(rng)),
			2 => format!("{}@{}", gen_host_odd(rng), gen_host_odd(rng)),
			_ => gen_ascii(rng, 40),
		}),
		1 | 2 => SanSpec::Dns(match rng.below(4) {
			0 | 1 => gen_host(rng),
			2 => gen_host_odd(rng),
			_ => gen_ascii(rng, 40),
		}),
		3 => SanSpec::Uri(match rng.below(4) {
			0 | 1 => format!("https://{}/{}", gen_host(rng), gen_host(rng)),
			2 => format!("{}://{}/{}?q=%41#{}", rng.pick(&["HTTP", "ldap", "urn", "https"]), gen_host_odd(rng), gen_host_odd(rng), rng.below(10)),
			_ => gen_ascii(rng, 40),
		}),
		4 => SanSpec::Ip(gen_ip(rng)),
		_ => SanSpec::Other(gen_oid(rng), gen_text(rng, StrKind::Utf8, 30)),
	}
}

pub fn gen_cidr(rng: &mut Rng) -> CidrSpec {
	let v6 = rng.chance(1, 2);
	let addr = rng.bytes(if v6 { 16 } else { 4 });
	let width = if v6 { 128u64 } else { 32 };
	let prefix = match rng.below(6) {
		0 => 0,
		1 => width as u8,
		2 => rng.below(256) as u8,
		_ => rng.below(width + 1) as u8,
	};
	CidrSpec {
		addr,
		prefix,
		ctor: rng.below(5) as u8,
	}
}

pub fn gen_subtree(rng: &mut Rng) -> SubtreeSpec {
	match rng.below(4) {
		0 => SubtreeSpec::Email(match rng.below(4) {
			0 | 1 => gen_host(rng),
			2 => gen_host_odd(rng),
			_ => gen_ascii(rng, 30),
		}),
		1 => SubtreeSpec::Dns(match rng.below(4) {
			0 | 1 => gen_host(rng),
			2 => gen_host_odd(rng),
			_ => gen_ascii(rng, 30),
		}),
		2 => {
			let mut n = gen_name(rng, 4);
			if n.is_empty() && rng.chance(1, 2) {
				n = vec![AttrSpec {
					ty: DnTy::Country,
					kind: StrKind::Printable,
					text: "US".into(),
				}];
			}
			SubtreeSpec::Dir(n)
		},
		_ => SubtreeSpec::Ip(gen_cidr(rng)),
	}
}

pub fn gen_serial(rng: &mut Rng) -> Vec<u8> {
	let n = match rng.below(8) {
		0 => 0,
		1 => 1,
		2 => 20,
		3 => 24,
		_ => rng.below(21) as usize,
	};
	let mut b = rng.bytes(n);
	match rng.below(6) {
		0 => {
			for x in b.iter_mut() {
				*x = 0;
			}
		},
		1 => {
			if let Some(x) = b.first_mut() {
				*x = 0;
			}
			if b.len() > 1 {
				b[1] |= 0x80;
			}
		},
		2 => {
			if let Some(x) = b.first_mut() {
				*x |= 0x80;
			}
		},
		3 => {
			if let Some(x) = b.first_mut() {
				*x = 0;
			}
			if b.len() > 1 {
				b[1] = 0;
			}
		},
		_ => {},
	}
	b
}

/// small valid DER values used as custom extension content / attribute values
pub fn gen_der_value(rng: &mut Rng) -> Vec<u8> {
	match rng.below(6) {
		0 => vec![0x05, 0x00],
		1 => {
			let b = { let n = rng.below(40) as usize; rng.bytes(n) };
			let mut v = vec![0x04];
			v.extend(der_len(b.len()));
			v.extend(b);
			v
		},
		2 => {
			let s = gen_text(rng, StrKind::Utf8, 20);
			let mut inner = vec![0x02, 0x01, rng.below(128) as u8, 0x0c];
			inner.extend(der_len(s.len()));
			inner.extend(s.as_bytes());
			let mut v = vec![0x30];
			v.extend(der_len(inner.len()));
			v.extend(inner);
			v
		},
		3 => vec![0x01, 0x01, 0xff],
		4 => {
			// long form length
			let b = { let n = 130 + rng.below(200) as usize; rng.bytes(n) };
			let mut v = vec![0x04];
			v.extend(der_len(b.len()));
			v.extend(b);
			v
		},
		_ => vec![0x30, 0x00],
	}
}

pub fn gen_kid(rng: &mut Rng) -> KidSpec {
	// the same random draws in every build configuration (C16 compares tables across builds)
	let k = match rng.below(5) {
		0 => KidSpec::Sha384,
		1 => KidSpec::Sha512,
		2 => KidSpec::Pre({
			let n = match rng.below(5) {
				0 => 0,
				1 => 20,
				// identifiers around the long-form length steps of the OCTET STRING (and of the extension value)
				2 => *rng.pick(&[21usize, 32, 48, 64, 125, 126, 127, 128, 129, 130, 255, 256, 257, 300]),
				_ => rng.below(65) as usize,
			};
			rng.bytes(n)
		}),
		_ => KidSpec::Sha256,
	};
	k
}

/// a time whose UTC year is within 0..=9999 and whose local representation is constructible
pub fn gen_time(rng: &mut Rng) -> TimeSpec {
	const MIN: i64 = -62167219200; // 0000-01-01T00:00:00Z
	const MAX: i64 = 253402300799; // 9999-12-31T23:59:59Z
	const B1950: i64 = -631152000;
	const B2050: i64 = 2524608000;
	for _ in 0..100 {
		let unix = match rng.below(8) {
			0 => B1950 + rng.range(-100_000, 100_000),
			1 => B2050 + rng.range(-100_000, 100_000),
			2 => MIN + rng.range(0, 200_000),
			3 => MAX - rng.range(0, 200_000),
			4 => rng.range(MIN, MAX),
			_ => rng.range(0, 4_102_444_800),
		};
		let nanos = match rng.below(4) {
			0 => 0,
			1 => 1,
			2 => 999_999_999,
			_ => rng.below(1_000_000_000) as u32,
		};
		let offset = match rng.below(5) {
			0 | 1 => 0,
			2 => rng.range(-25, 25) as i32 * 3600,
			3 => rng.range(-93599, 93599) as i32,
			_ => *rng.pick(&[93599, -93599, 3600, -3600, 1, -1, 1800, 20700]),
		};
		let t = TimeSpec { unix, nanos, offset };
		if t.to_time().is_some() {
			return t;
		}
	}
	TimeSpec::utc(1_700_000_000)
}

#[derive(Clone, Copy, Debug, Default)]
pub struct Presence {
	pub aki: bool,
	pub san: bool,
	pub ku: bool,
	pub eku: bool,
	pub nc: bool,
	pub crldp: bool,
	pub custom: bool,
}

impl Presence {
	pub fn from_bits(b: u32) -> Self {
		Presence {
			aki: b & 1 != 0,
			san: b & 2 != 0,
			ku: b & 4 != 0,
			eku: b & 8 != 0,
			nc: b & 16 != 0,
			crldp: b & 32 != 0,
			custom: b & 64 != 0,
		}
	}
}

/// Fill the extension-bearing fields selected by `pr` with generated content.
pub fn fill_presence(rng: &mut Rng, s: &mut ParamSpec, pr: Presence) {
	s.use_aki = pr.aki;
	s.sans = if pr.san {
		let n = match rng.below(10) {
			0 => 40,
			_ => 1 + rng.below(5),
		};
		(0..n).map(|_| gen_san(rng)).collect()
	} else {
		vec![]
	};
	s.ku = if pr.ku { 1 + rng.below(511) as u16 } else { 0 };
	s.ekus = if pr.eku {
		let n = 1 + rng.below(4);
		(0..n)
			.map(|_| {
				if rng.chance(4, 5) {
					rng.pick(&STD_EKUS).clone()
				} else {
					EkuSpec::Other(gen_custom_oid(rng))
				}
			})
			.collect()
	} else {
		vec![]
	};
	s.nc = if pr.nc {
		let a = rng.below(4);
		let b = if a == 0 { 1 + rng.below(3) } else { rng.below(4) };
		Some((
			(0..a).map(|_| gen_subtree(rng)).collect(),
			(0..b).map(|_| gen_subtree(rng)).collect(),
		))
	} else if rng.chance(1, 10) {
		Some((vec![], vec![]))
	} else {
		None
	};
	s.crldp = if pr.crldp {
		(0..1 + rng.below(3))
			.map(|_| {
				(0..1 + rng.below(3))
					.map(|_| {
						if rng.chance(3, 4) {
							format!("http://{}/{}.crl", gen_host(rng), gen_host(rng))
						} else {
							gen_ascii(rng, 30)
						}
					})
					.collect()
			})
			.collect()
	} else {
		vec![]
	};
	s.custom = if pr.custom {
		let mut v: Vec<CustomExtSpec> = Vec::new();
		for _ in 0..1 + rng.below(3) {
			let oid = gen_custom_oid(rng);
			if v.iter().any(|c| c.oid == oid) {
				continue;
			}
			v.push(CustomExtSpec {
				oid,
				critical: rng.chance(1, 2),
				content: if rng.chance(9, 10) {
					gen_der_value(rng)
				} else {
					{ let n = rng.below(20) as usize; rng.bytes(n) }
				},
			});
		}
		v
	} else {
		vec![]
	};
}

pub fn gen_is_ca(rng: &mut Rng) -> IsCaSpec {
	match rng.below(6) {
		0 | 1 => IsCaSpec::No,
		2 => IsCaSpec::ExplicitNo,
		3 => IsCaSpec::Ca(None),
		_ => IsCaSpec::Ca(Some(*rng.pick(&[0u8, 1, 2, 127, 128, 255, 7, 200]))),
	}
}

/// fully random well-formed certificate parameters
pub fn gen_params(rng: &mut Rng) -> ParamSpec {
	let mut s = ParamSpec::minimal();
	s.not_before = gen_time(rng);
	s.not_after = gen_time(rng);
	s.serial = if rng.chance(1, 2) { Some(gen_serial(rng)) } else { None };
	s.subject = gen_name(rng, 8);
	s.is_ca = gen_is_ca(rng);
	s.kid = gen_kid(rng);
	let pr = Presence::from_bits(rng.below(128) as u32 & rng.below(128) as u32 | (1 << rng.below(7)) * rng.below(2) as u32);
	fill_presence(rng, &mut s, pr);

	s
}
