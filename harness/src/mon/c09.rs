//! C09 – every time value is encoded as the same instant in the form RFC 5280 requires.
//!
//! Oracle: a small model (own civil-from-days arithmetic) giving the exact tag and text for the
//! UTC instant truncated to whole seconds; `derx` reads the five carriers back; OpenSSL's
//! ASN1_TIME is a second reader on a sample.

use rcgen::{
	BasicConstraints, Certificate, CertificateParams, CertificateRevocationListParams, IsCa, KeyIdMethod, KeyPair,
	RevokedCertParams, SerialNumber,
};

use crate::ctx::{par_for, CaseId, Ctx};
use crate::derx;
use crate::spec::TimeSpec;
use crate::util::{civil_from_unix, fnv64, Rng};
use crate::x509;

pub const MIN: i64 = -62167219200; // 0000-01-01T00:00:00Z
pub const MAX: i64 = 253402300799; // 9999-12-31T23:59:59Z
pub const B1950: i64 = -631152000;
pub const B2050: i64 = 2524608000;

/// the model: (tag, text) for a unix instant
pub fn model(unix: i64) -> (u32, String) {
	let (y, mo, d, h, mi, s) = civil_from_unix(unix);
	if (1950..=2049).contains(&y) {
		(derx::UTCTIME, format!("{:02}{:02}{:02}{:02}{:02}{:02}Z", y % 100, mo, d, h, mi, s))
	} else {
		(derx::GENTIME, format!("{:04}{:02}{:02}{:02}{:02}{:02}Z", y, mo, d, h, mi, s))
	}
}

pub fn offsets() -> Vec<i32> {
	let mut v: Vec<i32> = (-25..=25).map(|h| h * 3600).collect();
	v.extend([93599, -93599, 1, -1, 1800, -1800, 20700, -34200, 2700, 86399, -86399, 45296, -7261]);
	v
}

fn kid() -> KeyIdMethod {
	crate::spec::default_kid().to_rcgen()
}

struct Env {
	key: KeyPair,
	ca: Certificate,
}

fn env() -> Env {
	let key = crate::any_key();
	let mut p = CertificateParams::default();
	p.is_ca = IsCa::Ca(BasicConstraints::Unconstrained);
	p.serial_number = Some(SerialNumber::from_slice(&[7]));
	p.key_identifier_method = kid();
	let ca = p.self_signed(&key).expect("ca");
	Env { key, ca }
}

fn check_field(ctx: &Ctx, case: &CaseId, label: &str, carrier: &str, t: &TimeSpec, got: &x509::TimeV) {
	let (tag, text) = model(t.unix);
	ctx.count(&format!("eval:encodings:{}", carrier));
	if got.tag != tag || got.text != text || got.unix != t.unix {
		let what = if got.unix != t.unix {
			"instant"
		} else if got.tag != tag {
			"form"
		} else {
			"text"
		};
		ctx.violation(
			&format!("c09:{}:{}", what, carrier),
			case,
			label,
			&format!(
				"{}: encoded tag {} {:?} (unix {}), model tag {} {:?} (unix {})",
				carrier, got.tag, got.text, got.unix, tag, text, t.unix
			),
		);
	}
}

/// Encode `t` through the carriers and check each; returns the certificate's notBefore bytes
fn check_time(ctx: &Ctx, env: &Env, case: &CaseId, t: &TimeSpec, with_crl: bool, with_ossl: bool) -> Option<Vec<u8>> {
	let label = format!("{:?}", t);
	let dt = match t.to_time() {
		Some(d) => d,
		None => {
			ctx.count("skipped_unconstructible");
			return None;
		},
	};
	let mut p = CertificateParams::default();
	p.not_before = dt;
	p.not_after = dt;
	p.serial_number = Some(SerialNumber::from_slice(&[1]));
	p.key_identifier_method = kid();
	let mut out = None;
	match crate::guard(|| p.self_signed(&env.key)) {
		Err(pn) => ctx.violation("c09:panic:cert", case, &label, &pn),
		Ok(Err(e)) => ctx.violation("c09:refused:cert", case, &label, &format!("in-range time refused: {}", e)),
		Ok(Ok(cert)) => match x509::parse_certificate(cert.der()) {
			Err(e) => ctx.violation("c09:undecodable:cert", case, &label, &e),
			Ok(v) => {
				check_field(ctx, case, &label, "notBefore", t, &v.not_before);
				check_field(ctx, case, &label, "notAfter", t, &v.not_after);
				out = Some(v.not_before.text.clone().into_bytes());
				// second generation: the parameters a certificate reports are used again (renewal, cross-signing); the
				// times they hold must still be the same instants, whatever offset the caller used
				let again = cert.params().clone();
				let second = if case.index % 2 == 0 { crate::guard(|| again.self_signed(&env.key)) } else { crate::guard(|| again.signed_by(&env.key, &env.ca, &env.key)) };
				match second {
					Err(pn) => ctx.violation("c09:panic:cert-reissued", case, &label, &pn),
					Ok(Err(e)) => ctx.violation("c09:refused:cert-reissued", case, &label, &format!("parameters reported by a certificate were refused: {}", e)),
					Ok(Ok(c2)) => match x509::parse_certificate(c2.der()) {
						Err(e) => ctx.violation("c09:undecodable:cert-reissued", case, &label, &e),
						Ok(v2) => {
							check_field(ctx, case, &label, "reissued-notBefore", t, &v2.not_before);
							check_field(ctx, case, &label, "reissued-notAfter", t, &v2.not_after);
							let third = c2.params().clone();
							if let Ok(Ok(c3)) = crate::guard(|| third.self_signed(&env.key)) {
								if let Ok(v3) = x509::parse_certificate(c3.der()) {
									check_field(ctx, case, &label, "reissued-twice-notBefore", t, &v3.not_before);
								}
							}
						},
					},
				}
				#[cfg(feature = "ossl")]
				if with_ossl {
					if let Ok(x) = openssl::x509::X509::from_der(cert.der()) {
						match crate::ossl::asn1_time_unix(x.not_before()) {
							Ok(u) => {
								ctx.count("openssl_time_crosschecks");
								if u != t.unix {
									ctx.violation("c09:openssl-instant", case, &label, &format!("OpenSSL reads notBefore as {} expected {}", u, t.unix));
								}
							},
							Err(_) => ctx.count("openssl_time_unreadable"),
						}
					} else {
						ctx.violation("c09:openssl-rejects-cert", case, &label, "d2i_X509 failed");
					}
				}
				let _ = with_ossl;
			},
		},
	}
	if with_crl {
		// (a) t as thisUpdate and revocationDate, (b) t as nextUpdate
		for variant in 0..2 {
			let other_unix = if variant == 0 { t.unix + 86400 } else { t.unix - 86400 };
			if !(MIN..=MAX).contains(&other_unix) {
				continue;
			}
			let other = match TimeSpec::utc(other_unix).to_time() {
				Some(o) => o,
				None => continue,
			};
			let (this_update, next_update) = if variant == 0 { (dt, other) } else { (other, dt) };
			let params = CertificateRevocationListParams {
				this_update,
				next_update,
				crl_number: SerialNumber::from_slice(&[1]),
				issuing_distribution_point: None,
				revoked_certs: vec![RevokedCertParams {
					serial_number: SerialNumber::from_slice(&[9]),
					revocation_time: dt,
					reason_code: None,
					invalidity_date: Some(dt),
				}],
				key_identifier_method: kid(),
			};
			match crate::guard(|| params.signed_by(&env.ca, &env.key)) {
				Err(pn) => ctx.violation("c09:panic:crl", case, &label, &pn),
				Ok(Err(e)) => ctx.violation("c09:refused:crl", case, &label, &format!("in-range times refused: {}", e)),
				Ok(Ok(crl)) => match x509::parse_crl(crl.der()) {
					Err(e) => ctx.violation("c09:undecodable:crl", case, &label, &e),
					Ok(v) => {
						// the parameters the list reports, signed again: same instants
						let rep = crl.params();
						let again = CertificateRevocationListParams {
							this_update: rep.this_update,
							next_update: rep.next_update,
							crl_number: rep.crl_number.clone(),
							issuing_distribution_point: None,
							revoked_certs: rep
								.revoked_certs
								.iter()
								.map(|r| RevokedCertParams {
									serial_number: r.serial_number.clone(),
									revocation_time: r.revocation_time,
									reason_code: r.reason_code,
									invalidity_date: r.invalidity_date,
								})
								.collect(),
							key_identifier_method: kid(),
						};
						match crate::guard(|| again.signed_by(&env.ca, &env.key)) {
							Err(pn) => ctx.violation("c09:panic:crl-reissued", case, &label, &pn),
							Ok(Err(e)) => ctx.violation("c09:refused:crl-reissued", case, &label, &format!("parameters reported by a CRL were refused: {}", e)),
							Ok(Ok(crl2)) => match x509::parse_crl(crl2.der()) {
								Err(e) => ctx.violation("c09:undecodable:crl-reissued", case, &label, &e),
								Ok(v2) => {
									if variant == 0 {
										check_field(ctx, case, &label, "reissued-thisUpdate", t, &v2.this_update);
									} else if let Some(n) = &v2.next_update {
										check_field(ctx, case, &label, "reissued-nextUpdate", t, n);
									}
									if let Some(r) = v2.revoked.as_ref().and_then(|r| r.first()) {
										check_field(ctx, case, &label, "reissued-revocationDate", t, &r.time);
									}
								},
							},
						}
						if variant == 0 {
							check_field(ctx, case, &label, "thisUpdate", t, &v.this_update);
						} else if let Some(n) = &v.next_update {
							check_field(ctx, case, &label, "nextUpdate", t, n);
						} else {
							ctx.violation("c09:missing-nextUpdate", case, &label, "nextUpdate absent");
						}
						if let Some(r) = v.revoked.as_ref().and_then(|r| r.first()) {
							check_field(ctx, case, &label, "revocationDate", t, &r.time);
							// the entry's invalidityDate is a time field of the CRL too: same instant, Z, no fraction,
							// always GeneralizedTime (RFC 5280 5.3.2)
							let inv = r.exts.iter().flatten().find(|e| e.oid == x509::OID_INVALIDITY).map(|e| derx::parse_exact(&e.value, true).and_then(|tlv| x509::parse_time(&tlv)));
							ctx.count("eval:encodings:invalidityDate");
							let (y, mo, d, h, mi, sec) = civil_from_unix(t.unix);
							let want = format!("{:04}{:02}{:02}{:02}{:02}{:02}Z", y, mo, d, h, mi, sec);
							match inv {
								Some(Ok(g)) if g.tag == derx::GENTIME && g.text == want && g.unix == t.unix => {},
								other => ctx.violation(
									&format!("c09:{}:invalidityDate", match &other { Some(Ok(g)) if g.unix != t.unix => "instant", Some(Ok(_)) => "form", _ => "text" }),
									case,
									&label,
									&format!("invalidityDate: encoded {:?}, model GeneralizedTime {:?} (unix {})", other, want, t.unix),
								),
							}
						} else {
							ctx.violation("c09:missing-revoked", case, &label, "revoked entry absent");
						}
					},
				},
			}
		}
	}
	out
}

fn pick_nanos(rng: &mut Rng) -> u32 {
	match rng.below(4) {
		0 => 0,
		1 => 1,
		2 => 999_999_999,
		_ => rng.below(1_000_000_000) as u32,
	}
}

pub fn run(ctx: &Ctx) {
	let env = env();
	let miri = cfg!(miri);
	let offs = offsets();
	let step: i64 = if miri { 26 * 3600 } else { ctx.scale(300, 60) as i64 };
	let crl_every: u64 = if miri { 4 } else { ctx.scale(10, 1) };

	// --- boundary windows: every `step` seconds within +-26h of the four boundaries, all offsets
	let do_b = ctx.replay.as_ref().map_or(true, |r| r.workload == "boundary");
	if do_b {
		let mut instants: Vec<i64> = Vec::new();
		for b in [B1950, B2050, MIN, MAX] {
			let mut k = -26 * 3600;
			while k <= 26 * 3600 {
				let t = b + k;
				if (MIN..=MAX).contains(&t) {
					instants.push(t);
					// the last second before a boundary is the interesting one for truncation
					if k == 0 && t - 1 >= MIN {
						instants.push(t - 1);
					}
				}
				k += step;
			}
		}
		par_for(instants.len() as u64, if miri { 1 } else { ctx.threads }, |i| {
			if let Some(r) = &ctx.replay {
				if r.index != i {
					return;
				}
			}
			let case = CaseId::new("boundary", ctx.seed, i);
			let mut rng = case.rng();
			let unix = instants[i as usize];
			let mut first: Option<Vec<u8>> = None;
			let offs_used: Vec<i32> = if miri { vec![0, -93599] } else { offs.clone() };
			for (j, off) in offs_used.iter().enumerate() {
				let t = TimeSpec {
					unix,
					nanos: pick_nanos(&mut rng),
					offset: *off,
				};
				let with_crl = (i + j as u64) % crl_every == 0;
				let enc = check_time(ctx, &env, &case, &t, with_crl, j == 0 && i % 16 == 0);
				if let Some(e) = enc {
					ctx.count("dist:instant_offset_pairs");
					match &first {
						None => first = Some(e),
						Some(f) => {
							if f != &e {
								ctx.violation(
									"c09:offset-dependence",
									&case,
									&format!("{:?}", t),
									&format!("same instant encoded as {:?} with another offset", String::from_utf8_lossy(f)),
								);
							}
						},
					}
				}
			}
		});
		ctx.sample(|| {
			format!(
				"boundary: {} instants (every {} s within +-26 h of 1950-01-01, 2050-01-01, 0000-01-01, 9999-12-31T23:59:59 UTC) x {} offsets, nanos in {{0,1,999999999,random}}",
				instants.len(),
				step,
				offs.len()
			)
		});
	}

	// --- random instants over the whole range
	let do_r = ctx.replay.as_ref().map_or(true, |r| r.workload == "random");
	if do_r {
		let n = if miri { 3 } else { ctx.scale(20_000, 400_000) };
		par_for(n, if miri { 1 } else { ctx.threads }, |i| {
			if let Some(r) = &ctx.replay {
				if r.index != i {
					return;
				}
			}
			let case = CaseId::new("random", ctx.seed, i);
			let mut rng = case.rng();
			let t = crate::spec::gen_time(&mut rng);
			check_time(ctx, &env, &case, &t, i % crl_every == 0, i % 50 == 0);
			ctx.distinct(fnv64(format!("{:?}", t).as_bytes()));
			ctx.sample(|| format!("random: {:?} -> model {:?}", t, model(t.unix)));
		});
	}
}
