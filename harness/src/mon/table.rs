//! Case table with fixed keys, shared by C15 (determinism / thread-safety) and C16 (back ends agree).
//! Works in every build configuration: with a crypto back end the keys are real (loaded from the
//! key file written once per run), without one they are remote doubles exposing the same public
//! key bytes and algorithm, so that to-be-signed bytes can be compared across builds.

use std::sync::atomic::{AtomicU64, Ordering};
use std::sync::{Arc, Barrier, Mutex};

use rcgen::{
	Certificate, CertificateParams, CertificateRevocationListParams, CrlDistributionPoint, CrlIssuingDistributionPoint, CrlScope,
	KeyPair, RevokedCertParams, SerialNumber, SignatureAlgorithm,
};

use crate::ctx::{CaseId, Ctx};
use crate::spec::*;
use crate::util::{fnv64, hex, jstr, unhex, Rng};
use crate::x509;

pub struct TKey {
	pub label: String,
	pub alg: String,
	pub pkcs8: Vec<u8>,
	pub pk_raw: Vec<u8>,
	/// complete output is deterministic (Ed25519, RSA PKCS#1 v1.5, remote doubles)
	pub det: bool,
	pub kp: KeyPair,
}

pub fn alg_by_name(n: &str) -> Option<&'static SignatureAlgorithm> {
	Some(match n {
		"PKCS_RSA_SHA256" => &rcgen::PKCS_RSA_SHA256,
		"PKCS_RSA_SHA384" => &rcgen::PKCS_RSA_SHA384,
		"PKCS_RSA_SHA512" => &rcgen::PKCS_RSA_SHA512,
		"PKCS_ECDSA_P256_SHA256" => &rcgen::PKCS_ECDSA_P256_SHA256,
		"PKCS_ECDSA_P384_SHA384" => &rcgen::PKCS_ECDSA_P384_SHA384,
		"PKCS_ED25519" => &rcgen::PKCS_ED25519,
		_ => return None,
	})
}

/// write the key file: `label alg pkcs8-hex raw-public-key-hex` per line (needs a crypto back end)
#[cfg(all(feature = "crypto", feature = "ossl"))]
pub fn gen_keys(path: &std::path::Path) -> Result<(), String> {
	use crate::ossl;
	let mut lines = Vec::new();
	let mut add = |label: &str, der: Vec<u8>| -> Result<(), String> {
		let kp = KeyPair::try_from(der.as_slice()).map_err(|e| format!("{}: {}", label, e))?;
		// RSA keys b and c are used under SHA-384 / SHA-512 (loaded with an explicit algorithm by every build)
		let alg = match label {
			"rsa2048-b" => "PKCS_RSA_SHA384".to_string(),
			"rsa2048-c" => "PKCS_RSA_SHA512".to_string(),
			_ => format!("{:?}", kp.algorithm()),
		};
		lines.push(format!("{} {} {} {}", label, alg, hex(&der), hex(kp.public_key_raw())));
		Ok(())
	};
	add("ed25519-a", KeyPair::generate_for(&rcgen::PKCS_ED25519).map_err(|e| e.to_string())?.serialize_der())?;
	add("ed25519-b", ossl::ed25519_pkcs8())?;
	add("p256-a", KeyPair::generate_for(&rcgen::PKCS_ECDSA_P256_SHA256).map_err(|e| e.to_string())?.serialize_der())?;
	add("p384-a", ossl::ec_pkcs8(openssl::nid::Nid::SECP384R1))?;
	add("rsa2048-a", ossl::rsa_pkcs8(2048))?;
	add("rsa2048-b", ossl::rsa_pkcs8(2048))?;
	add("rsa2048-c", ossl::rsa_pkcs8(2048))?;
	// a larger modulus through auto-detection: the algorithm must not depend on the key size in one back end only
	add("rsa3072-a", ossl::rsa_pkcs8(3072))?;
	// a key behind the RemoteKeyPair interface whose signer pauses for a data-dependent time
	add("remote-ed25519", ossl::ed25519_pkcs8())?;
	std::fs::write(path, lines.join("\n") + "\n").map_err(|e| e.to_string())
}

pub fn load_keys(path: &std::path::Path) -> Result<Vec<TKey>, String> {
	let text = std::fs::read_to_string(path).map_err(|e| format!("{}: {}", path.display(), e))?;
	let mut out = Vec::new();
	for line in text.lines() {
		let f: Vec<&str> = line.split(' ').collect();
		if f.len() != 4 {
			continue;
		}
		let pkcs8 = unhex(f[2]).ok_or("bad hex")?;
		let pk_raw = unhex(f[3]).ok_or("bad hex")?;
		let alg = alg_by_name(f[1]).ok_or_else(|| format!("unknown algorithm {}", f[1]))?;
		#[cfg(feature = "crypto")]
		let (kp, det) = {
			// auto-detection for most keys; the general explicit loader for the RSA keys used under SHA-384/512
			let kp = if f[0].starts_with("remote-") {
				jitter_remote(&pkcs8, &pk_raw, alg)?
			} else if f[1] == "PKCS_RSA_SHA384" || f[1] == "PKCS_RSA_SHA512" {
				// under aws-lc-rs, key b arrives in its traditional PKCS#1 encoding (which ring cannot read):
				// the same key and the same requested algorithm must give the same output in both back ends
				#[cfg(all(feature = "aws", feature = "ossl"))]
				let doc: Vec<u8> = if f[0] == "rsa2048-b" {
					crate::ossl::load_private(&pkcs8)?.rsa().and_then(|r| r.private_key_to_der()).map_err(|e| e.to_string())?
				} else {
					pkcs8.clone()
				};
				#[cfg(not(all(feature = "aws", feature = "ossl")))]
				let doc: Vec<u8> = pkcs8.clone();
				let pkd = pki_types::PrivateKeyDer::try_from(doc).map_err(|e| e.to_string())?;
				KeyPair::from_der_and_sign_algo(&pkd, alg).map_err(|e| format!("{}: {}", f[0], e))?
			} else {
				KeyPair::try_from(pkcs8.as_slice()).map_err(|e| format!("{}: {}", f[0], e))?
			};
			if kp.algorithm() != alg || kp.public_key_raw() != pk_raw.as_slice() {
				return Err(format!("key {} loads as another key/algorithm in this back end", f[0]));
			}
			(kp, !f[1].contains("ECDSA"))
		};
		#[cfg(not(feature = "crypto"))]
		let (kp, det) = {
			let kp = KeyPair::from_remote(Box::new(crate::DummyRemote {
				pk: pk_raw.clone(),
				alg,
				sig_len: 64,
			}))
			.map_err(|e| e.to_string())?;
			(kp, true)
		};
		out.push(TKey {
			label: f[0].to_string(),
			alg: f[1].to_string(),
			pkcs8,
			pk_raw,
			det,
			kp,
		});
	}
	if out.is_empty() {
		return Err("empty key file".into());
	}
	Ok(out)
}

/// Ed25519 signer behind `RemoteKeyPair` that pauses for a message-dependent time before and after
/// signing: calls sharing a key, an issuer or anything global overlap in many more ways than
/// with the (fast, uniform) local signers.
#[cfg(all(feature = "crypto", feature = "ossl"))]
struct JitterRemote {
	pkey: openssl::pkey::PKey<openssl::pkey::Private>,
	pk: Vec<u8>,
	alg: &'static SignatureAlgorithm,
}

#[cfg(all(feature = "crypto", feature = "ossl"))]
impl rcgen::RemoteKeyPair for JitterRemote {
	fn public_key(&self) -> &[u8] {
		&self.pk
	}
	fn sign(&self, msg: &[u8]) -> Result<Vec<u8>, rcgen::Error> {
		let h = fnv64(msg);
		std::thread::sleep(std::time::Duration::from_micros(h % 150));
		let r = openssl::sign::Signer::new_without_digest(&self.pkey)
			.and_then(|mut s| s.sign_oneshot_to_vec(msg))
			.map_err(|_| rcgen::Error::RemoteKeyError);
		if h & 0x100 != 0 {
			std::thread::yield_now();
		}
		std::thread::sleep(std::time::Duration::from_micros((h >> 16) % 100));
		r
	}
	fn algorithm(&self) -> &'static SignatureAlgorithm {
		self.alg
	}
}

#[cfg(all(feature = "crypto", feature = "ossl"))]
fn jitter_remote(pkcs8: &[u8], pk_raw: &[u8], alg: &'static SignatureAlgorithm) -> Result<KeyPair, String> {
	let pkey = crate::ossl::load_private(pkcs8)?;
	KeyPair::from_remote(Box::new(JitterRemote { pkey, pk: pk_raw.to_vec(), alg })).map_err(|e| e.to_string())
}

#[cfg(all(feature = "crypto", not(feature = "ossl")))]
fn jitter_remote(pkcs8: &[u8], _pk_raw: &[u8], _alg: &'static SignatureAlgorithm) -> Result<KeyPair, String> {
	KeyPair::try_from(pkcs8).map_err(|e| e.to_string())
}

/// keys for configurations that run without a key file (Miri)
pub fn dummy_keys() -> Vec<TKey> {
	(0..3u8)
		.map(|i| TKey {
			label: format!("dummy-{}", i),
			alg: "PKCS_ED25519".into(),
			pkcs8: vec![],
			pk_raw: (0..32).map(|k| k ^ (i * 37)).collect(),
			det: true,
			kp: crate::dummy_key(i),
		})
		.collect()
}

#[derive(Clone, Debug)]
pub enum TKind {
	SelfSigned,
	Issued { issuer: usize },
	Csr { attrs: Vec<(Vec<u64>, Vec<u8>)> },
	Crl { issuer: usize, spec: TCrl },
}

#[derive(Clone, Debug)]
pub struct TCrl {
	pub this_update: i64,
	pub next_update: i64,
	pub number: Vec<u8>,
	pub idp: Option<(Vec<String>, u8)>,
	pub revoked: Vec<(Vec<u8>, i64, Option<u8>, Option<i64>)>,
	pub kid: KidSpec,
	/// sub-second part and UTC offset given to every date of this CRL (the instants are the same)
	pub nanos: u32,
	pub offset: i32,
}

#[derive(Clone, Debug)]
pub struct TCase {
	pub idx: usize,
	pub key: usize,
	pub spec: ParamSpec,
	pub kind: TKind,
	/// can be executed by the crypto-less build too (explicit serial, pre-specified key ids)
	pub portable: bool,
}

/// long names (6..8 attributes) so that iteration in hash-map order would be noticed
fn long_name(rng: &mut Rng) -> NameSpec {
	loop {
		let n = gen_name(rng, 8);
		if n.len() >= 6 {
			return n;
		}
	}
}

pub fn table(seed: u64, k: usize, nkeys: usize, portable_only: bool) -> Vec<TCase> {
	let mut out = Vec::new();
	for idx in 0..k {
		let mut rng = Rng::derive(seed, "table", idx as u64);
		let portable = portable_only || idx % 2 == 0;
		let mut spec = gen_params(&mut rng);
		spec.subject = long_name(&mut rng);
		if portable {
			if spec.serial.is_none() {
				spec.serial = Some(vec![1 + (idx % 200) as u8, 7]);
			}
			if !matches!(spec.kid, KidSpec::Pre(_)) {
				spec.kid = KidSpec::Pre(rng.bytes(20));
			}
		}
		if !spec.sans.is_empty() && rng.chance(1, 3) {
			// the same name twice: still the caller's list, to be written and reported as given
			let d = spec.sans[0].clone();
			spec.sans.push(d);
		}
		let kind = match idx % 4 {
			0 => TKind::SelfSigned,
			1 => {
				// crypto builds: also the two issuers that share issuer 0's key but derive their key
				// identifier by hashing (SHA-256 / SHA-384), with the authority key identifier requested
				let issuer = if portable { idx / 4 % 2 } else { idx / 4 % 4 };
				if issuer >= 2 {
					spec.use_aki = true;
				}
				TKind::Issued { issuer }
			},
			2 => {
				spec.serial = None;
				spec.is_ca = IsCaSpec::No;
				spec.nc = None;
				spec.crldp = vec![];
				spec.use_aki = false;
				if spec.ekus.len() < 3 {
					spec.ekus = vec![EkuSpec::ServerAuth, EkuSpec::ClientAuth, EkuSpec::CodeSigning, EkuSpec::EmailProtection, EkuSpec::OcspSigning];
					rng.shuffle(&mut spec.ekus);
				}
				TKind::Csr {
					attrs: (0..rng.below(4))
						.map(|_| {
							let mut v = gen_der_value(&mut rng);
							let mut set = vec![0x31];
							set.extend(der_len(v.len()));
							set.append(&mut v);
							(gen_custom_oid(&mut rng), set)
						})
						.collect(),
				}
			},
			_ => {
				let this = 1_700_000_000 + rng.range(0, 1_000_000);
				TKind::Crl {
					issuer: idx / 4 % 2,
					spec: TCrl {
						this_update: this,
						next_update: this + 86_400,
						number: gen_serial(&mut rng),
						idp: if rng.chance(1, 2) { Some((vec![format!("http://{}/c.crl", gen_host(&mut rng))], rng.below(3) as u8)) } else { None },
						revoked: (0..rng.below(6))
							.map(|_| {
								(
									gen_serial(&mut rng),
									1_600_000_000 + rng.range(0, 90_000_000),
									if rng.chance(1, 2) { Some(*rng.pick(&[0u8, 1, 2, 3, 4, 5, 6, 8, 9, 10])) } else { None },
									if rng.chance(1, 3) { Some(1_500_000_000 + rng.range(0, 90_000_000)) } else { None },
								)
							})
							.collect(),
						kid: if portable {
							KidSpec::Pre(rng.bytes(20))
						} else {
							[KidSpec::Sha256, KidSpec::Sha384, KidSpec::Sha512][rng.below(3) as usize].clone()
						},
						nanos: *rng.pick(&[0, 0, 1, 500_000_000, 999_999_999]),
						offset: *rng.pick(&[0, 0, 3600, -34_200, 20_700]),
					},
				}
			},
		};
		out.push(TCase {
			idx,
			key: rng.below(nkeys as u64) as usize,
			spec,
			kind,
			portable,
		});
	}
	out
}

pub struct Issuers {
	pub certs: Vec<Certificate>,
	pub keys: Vec<usize>,
}

/// two fixed CA certificates (deterministically signed when the key allows)
pub fn issuers(keys: &[TKey]) -> Result<Issuers, String> {
	let mut certs = Vec::new();
	let mut ks = Vec::new();
	for (i, want) in ["ed25519", "rsa"].iter().enumerate() {
		let ki = keys.iter().position(|k| k.label.starts_with(want)).unwrap_or(i % keys.len());
		let mut s = ParamSpec::minimal();
		s.subject = vec![
			AttrSpec { ty: DnTy::Country, kind: StrKind::Printable, text: "DE".into() },
			AttrSpec { ty: DnTy::Org, kind: StrKind::Utf8, text: format!("verif issuer {}", i) },
			AttrSpec { ty: DnTy::Cn, kind: StrKind::Utf8, text: "fixed ca".into() },
		];
		s.is_ca = IsCaSpec::Ca(None);
		s.serial = Some(vec![0x42, i as u8]);
		s.kid = KidSpec::Pre(vec![0xa0 + i as u8; 20]);
		let c = s.to_rcgen(None).self_signed(&keys[ki].kp).map_err(|e| format!("issuer {}: {}", i, e))?;
		certs.push(c);
		ks.push(ki);
	}
	// two more CA certificates for the SAME key as issuer 0, with hashed key identifiers: whatever is
	// remembered per key (and not per issuer certificate) shows as a wrong authority key identifier
	#[cfg(feature = "crypto")]
	for (i, kid) in [KidSpec::Sha256, KidSpec::Sha384].into_iter().enumerate() {
		let mut s = ParamSpec::minimal();
		s.subject = vec![
			AttrSpec { ty: DnTy::Org, kind: StrKind::Utf8, text: format!("verif issuer sharing key {}", i) },
			AttrSpec { ty: DnTy::Cn, kind: StrKind::Utf8, text: "renewed ca".into() },
		];
		s.is_ca = IsCaSpec::Ca(None);
		s.serial = Some(vec![0x43, i as u8]);
		s.kid = kid;
		let c = s.to_rcgen(None).self_signed(&keys[ks[0]].kp).map_err(|e| format!("issuer {}: {}", i + 2, e))?;
		certs.push(c);
		ks.push(ks[0]);
	}
	Ok(Issuers { certs, keys: ks })
}

fn crl_params(c: &TCrl) -> CertificateRevocationListParams {
	let t = |u: i64| TimeSpec { unix: u, nanos: c.nanos, offset: c.offset }.to_time().unwrap();
	CertificateRevocationListParams {
		this_update: t(c.this_update),
		next_update: t(c.next_update),
		crl_number: SerialNumber::from_slice(&c.number),
		issuing_distribution_point: c.idp.as_ref().map(|(u, s)| CrlIssuingDistributionPoint {
			distribution_point: CrlDistributionPoint { uris: u.clone() },
			scope: match s {
				1 => Some(CrlScope::UserCertsOnly),
				2 => Some(CrlScope::CaCertsOnly),
				_ => None,
			},
		}),
		revoked_certs: c
			.revoked
			.iter()
			.map(|(s, at, reason, inv)| RevokedCertParams {
				serial_number: SerialNumber::from_slice(s),
				revocation_time: t(*at),
				reason_code: reason.map(|r| match r {
					0 => rcgen::RevocationReason::Unspecified,
					1 => rcgen::RevocationReason::KeyCompromise,
					2 => rcgen::RevocationReason::CaCompromise,
					3 => rcgen::RevocationReason::AffiliationChanged,
					4 => rcgen::RevocationReason::Superseded,
					5 => rcgen::RevocationReason::CessationOfOperation,
					6 => rcgen::RevocationReason::CertificateHold,
					8 => rcgen::RevocationReason::RemoveFromCrl,
					9 => rcgen::RevocationReason::PrivilegeWithdrawn,
					_ => rcgen::RevocationReason::AaCompromise,
				}),
				invalidity_date: inv.map(t),
			})
			.collect(),
		key_identifier_method: c.kid.to_rcgen(),
	}
}

pub struct Exec {
	pub tbs: Vec<u8>,
	pub der: Vec<u8>,
	/// the complete output is expected to be reproducible
	pub det: bool,
	/// generation reported parameters equal to its input
	pub params_kept: bool,
}

/// Execute one case. Everything rcgen-facing happens here, under the unwind observer.
pub fn exec(c: &TCase, keys: &[TKey], iss: &Issuers) -> Result<Exec, String> {
	let r = crate::guard(|| -> Result<Exec, String> {
		let params: CertificateParams = c.spec.to_rcgen(None);
		let input = params.clone();
		let key = &keys[c.key];
		match &c.kind {
			TKind::SelfSigned => {
				let cert = params.self_signed(&key.kp).map_err(|e| e.to_string())?;
				let (tbs, _, _) = x509::split_signed_raw(cert.der(), true)?;
				Ok(Exec { tbs, der: cert.der().to_vec(), det: key.det, params_kept: cert.params() == &input })
			},
			TKind::Issued { issuer } => {
				let ik = &keys[iss.keys[*issuer]];
				let cert = params.signed_by(&key.kp, &iss.certs[*issuer], &ik.kp).map_err(|e| e.to_string())?;
				let (tbs, _, _) = x509::split_signed_raw(cert.der(), true)?;
				Ok(Exec { tbs, der: cert.der().to_vec(), det: ik.det, params_kept: cert.params() == &input })
			},
			TKind::Csr { attrs } => {
				let a: Vec<rcgen::Attribute> = attrs
					.iter()
					.map(|(o, v)| rcgen::Attribute { oid: Box::leak(o.clone().into_boxed_slice()), values: v.clone() })
					.collect();
				let csr = params.serialize_request_with_attributes(&key.kp, a).map_err(|e| e.to_string())?;
				let (tbs, _, _) = x509::split_signed_raw(csr.der(), true)?;
				Ok(Exec { tbs, der: csr.der().to_vec(), det: key.det, params_kept: params == input })
			},
			TKind::Crl { issuer, spec } => {
				let ik = &keys[iss.keys[*issuer]];
				let p = crl_params(spec);
				let before = format!("{:?}", p);
				let crl = p.signed_by(&iss.certs[*issuer], &ik.kp).map_err(|e| e.to_string())?;
				let (tbs, _, _) = x509::split_signed_raw(crl.der(), true)?;
				Ok(Exec { tbs, der: crl.der().to_vec(), det: ik.det, params_kept: format!("{:?}", crl.params()) == before })
			},
		}
	});
	match r {
		Ok(x) => x,
		Err(p) => Err(format!("PANIC: {}", p)),
	}
}

#[derive(Clone)]
pub struct Event {
	pub case: usize,
	pub phase: String,
	pub thread: usize,
	pub round: usize,
	pub tbs: u64,
	pub der: u64,
	pub det: bool,
	pub t0: u64,
	pub t1: u64,
}

fn now_ns(start: &std::time::Instant) -> u64 {
	start.elapsed().as_nanos() as u64
}

/// Fingerprint of everything shared between threads (keys and issuers), as far as the API shows it
fn shared_fingerprint(keys: &[TKey], iss: &Issuers) -> u64 {
	let mut h = 0u64;
	for k in keys {
		h ^= fnv64(&k.kp.public_key_der()).rotate_left(7);
		h ^= fnv64(k.kp.public_key_raw()).rotate_left(13);
		h ^= fnv64(format!("{:?}", k.kp.algorithm()).as_bytes());
		#[cfg(feature = "crypto")]
		if k.kp.as_remote().is_none() {
			h ^= fnv64(&k.kp.serialize_der()).rotate_left(29);
		}
	}
	for c in &iss.certs {
		h ^= fnv64(c.der()).rotate_left(3);
		h ^= fnv64(format!("{:?}", c.params()).as_bytes()).rotate_left(17);
		h ^= fnv64(&c.key_identifier()).rotate_left(23);
	}
	h
}

/// some unrelated API calls, to sit between repetitions of the observed call
fn unrelated_calls(rng: &mut Rng, keys: &[TKey], iss: &Issuers) {
	for _ in 0..1 + rng.below(4) {
		match rng.below(5) {
			0 => {
				let s = gen_params(rng);
				let _ = crate::guard(|| s.to_rcgen(None).self_signed(&keys[0].kp).map(|c| c.der().len()));
			},
			1 => {
				let mut dn = name_to_rcgen(&gen_name(rng, 6));
				dn.remove(rcgen::DnType::CommonName);
				dn.push(rcgen::DnType::CommonName, "x");
			},
			2 => {
				let _ = crate::guard(|| rcgen::CertificateParams::from_ca_cert_der(iss.certs[0].der()).map(|p| p.key_usages.len()));
			},
			3 => {
				let _ = crate::guard(|| {
					CertificateRevocationListParams {
						this_update: rcgen::date_time_ymd(2024, 1, 1),
						next_update: rcgen::date_time_ymd(2024, 3, 1),
						crl_number: SerialNumber::from_slice(&[3]),
						issuing_distribution_point: None,
						revoked_certs: vec![],
						key_identifier_method: default_kid().to_rcgen(),
					}
					.signed_by(&iss.certs[1], &keys[iss.keys[1]].kp)
					.map(|c| c.der().len())
				});
			},
			_ => {
				let _ = keys[rng.below(keys.len() as u64) as usize].kp.public_key_der();
			},
		}
	}
}

/// Directed: the same request imported several times. What `from_der` recovers is a function of the request alone (order
/// of names included), so the certificates issued from each import have identical to-be-signed bytes.
fn csr_reimport_directed(ctx: &Ctx, keys: &[TKey], iss: &Issuers) {
	for n in 0..8usize {
		let case = CaseId::new("csr-reimport", ctx.seed, n as u64);
		let key = &keys[n % keys.len()];
		let ik = &keys[iss.keys[n % 2]];
		let mut p = CertificateParams::default();
		p.subject_alt_names = (0..12)
			.filter_map(|k| format!("name-{}-{}.example.com", n, (k * 7) % 12).try_into().ok().map(rcgen::SanType::DnsName))
			.collect();
		p.subject_alt_names.insert(n % 12, rcgen::SanType::IpAddress(std::net::IpAddr::from([10, 0, n as u8, 1])));
		p.key_usages = vec![rcgen::KeyUsagePurpose::DigitalSignature, rcgen::KeyUsagePurpose::KeyEncipherment];
		p.extended_key_usages = vec![rcgen::ExtendedKeyUsagePurpose::ServerAuth, rcgen::ExtendedKeyUsagePurpose::ClientAuth, rcgen::ExtendedKeyUsagePurpose::CodeSigning];
		let text = format!("request with 13 names by key {} imported 6 times, each import issued by issuer {}", key.label, n % 2);
		ctx.count("eval:csr-reimport");
		let r = crate::guard(|| -> Result<Option<Vec<Vec<u8>>>, String> {
			let csr = p.serialize_request(&key.kp).map_err(|e| e.to_string())?;
			let mut out = Vec::new();
			for _ in 0..6 {
				let parsed = match rcgen::CertificateSigningRequestParams::from_der(csr.der()) {
					Ok(x) => x,
					Err(_) => return Ok(None),
				};
				let cert = parsed.signed_by(&iss.certs[n % 2], &ik.kp).map_err(|e| e.to_string())?;
				out.push(x509::split_signed_raw(cert.der(), true)?.0);
			}
			Ok(Some(out))
		});
		match r {
			Err(pn) => ctx.violation("c15:panic", &case, &text, &pn),
			Ok(Err(e)) => ctx.violation("c15:refused", &case, &text, &e),
			Ok(Ok(None)) => ctx.count("csr-reimport:import-refused"),
			Ok(Ok(Some(v))) => {
				ctx.count("csr-reimport:sequences");
				if v.iter().any(|t| *t != v[0]) {
					ctx.violation("c15:tbs-differs:reimported-request", &case, &text, "importing the same request again gave a certificate with different to-be-signed bytes");
				}
			},
		}
	}
}

/// Directed: texts rcgen may refuse or must keep. Distribution-point URIs that are not plain ASCII URIs (non-ASCII,
/// blanks, upper case, escapes): if an artefact is produced, the object reports the parameters as given - a "helpful"
/// repair written back into them is an alteration - and the same call twice gives the same to-be-signed bytes.
fn reported_params_directed(ctx: &Ctx, keys: &[TKey], iss: &Issuers) {
	let uris = [
		"http://b\u{fc}cher.example/\u{e4}.crl",
		"http://example.com/a b.crl",
		" http://example.com/x.crl ",
		"HTTP://EXAMPLE.COM/X.CRL",
		"http://example.com/%C3%A4.crl",
		"http://example.com/\u{20ac}",
		"",
	];
	for (n, u) in uris.iter().enumerate() {
		for kind in 0..3u64 {
			let case = CaseId::new("reported-params", ctx.seed, n as u64 * 3 + kind);
			let text = format!("distribution point URI {:?} in a {}", u, ["self-signed certificate", "issued certificate", "CRL (issuing distribution point)"][kind as usize]);
			ctx.count("eval:reported-params");
			let run = || -> Result<(Vec<u8>, bool), String> {
				let ik = &keys[iss.keys[0]];
				if kind < 2 {
					let mut p = CertificateParams::default();
					p.serial_number = Some(SerialNumber::from_slice(&[3, n as u8]));
					p.key_identifier_method = default_kid().to_rcgen();
					p.crl_distribution_points = vec![CrlDistributionPoint { uris: vec![u.to_string()] }];
					let input = p.clone();
					let cert = if kind == 0 { p.self_signed(&ik.kp) } else { p.signed_by(&ik.kp, &iss.certs[0], &ik.kp) }.map_err(|e| e.to_string())?;
					let (tbs, _, _) = x509::split_signed_raw(cert.der(), true)?;
					Ok((tbs, cert.params() == &input))
				} else {
					let mk = || CertificateRevocationListParams {
						this_update: TimeSpec::utc(1_700_000_000).to_time().unwrap(),
						next_update: TimeSpec::utc(1_700_086_400).to_time().unwrap(),
						crl_number: SerialNumber::from_slice(&[5]),
						issuing_distribution_point: Some(CrlIssuingDistributionPoint { distribution_point: CrlDistributionPoint { uris: vec![u.to_string()] }, scope: None }),
						revoked_certs: vec![],
						key_identifier_method: default_kid().to_rcgen(),
					};
					let before = format!("{:?}", mk());
					let crl = mk().signed_by(&iss.certs[0], &ik.kp).map_err(|e| e.to_string())?;
					let (tbs, _, _) = x509::split_signed_raw(crl.der(), true)?;
					Ok((tbs, format!("{:?}", crl.params()) == before))
				}
			};
			match (crate::guard(&run), crate::guard(&run)) {
				(Err(p), _) | (_, Err(p)) => ctx.violation("c15:panic", &case, &text, &p),
				(Ok(Err(_)), Ok(Err(_))) => ctx.count("reported-params:refused"),
				(Ok(Ok((t1, kept1))), Ok(Ok((t2, kept2)))) => {
					ctx.count("reported-params:produced");
					if !kept1 || !kept2 {
						ctx.violation("c15:params-altered", &case, &text, "the returned object reports parameters different from the ones given");
					}
					if t1 != t2 {
						ctx.violation("c15:tbs-differs:repeat", &case, &text, "the same call twice gave different to-be-signed bytes");
					}
				},
				_ => ctx.violation("c15:verdict-differs:repeat", &case, &text, "the same call was refused once and accepted once"),
			}
		}
	}
}

/// C15 in one process: history part + thread part. Returns the events for the offline checker.
pub fn run_c15(ctx: &Ctx, keys: &[TKey], k: usize, thread_counts: &[usize], rounds: usize, proc_id: u64) -> Vec<Event> {
	let iss = match issuers(keys) {
		Ok(i) => i,
		Err(e) => {
			ctx.inconclusive(&format!("cannot build the fixed issuers: {}", e));
			return vec![];
		},
	};
	let portable_only = !cfg!(feature = "crypto");
	if ctx.replay.as_ref().map_or(true, |r| r.workload == "reported-params") {
		reported_params_directed(ctx, keys, &iss);
	}
	// (importing a request verifies its signature through ring's C code: not under Miri)
	if !cfg!(miri) && ctx.replay.as_ref().map_or(true, |r| r.workload == "csr-reimport") {
		csr_reimport_directed(ctx, keys, &iss);
	}
	let tab = table(ctx.seed, k, keys.len(), portable_only);
	let start = std::time::Instant::now();
	let events: Mutex<Vec<Event>> = Mutex::new(Vec::new());
	let fp0 = shared_fingerprint(keys, &iss);
	let reference: Mutex<std::collections::HashMap<usize, (u64, u64)>> = Mutex::new(std::collections::HashMap::new());

	let observe = |c: &TCase, phase: &str, thread: usize, round: usize| {
		let case = CaseId::new("table", ctx.seed, c.idx as u64);
		let t0 = now_ns(&start);
		let r = exec(c, keys, &iss);
		let t1 = now_ns(&start);
		ctx.count(&format!("eval:executions:{}", phase));
		let text = || format!("proc={} phase={} thread={} round={} case={:?}", proc_id, phase, thread, round, c);
		match r {
			Err(e) => ctx.violation(
				if e.starts_with("PANIC") { "c15:panic" } else { "c15:refused" },
				&case,
				&text(),
				&e,
			),
			Ok(x) => {
				if !x.params_kept {
					ctx.violation("c15:params-altered", &case, &text(), "the returned object reports parameters different from the ones given");
				}
				let (ht, hd) = (fnv64(&x.tbs), fnv64(&x.der));
				{
					let mut g = reference.lock().unwrap();
					match g.get(&c.idx) {
						None => {
							g.insert(c.idx, (ht, hd));
						},
						Some((rt, rd)) => {
							if *rt != ht {
								ctx.violation(
									&format!("c15:tbs-differs:{}", phase.split(':').next().unwrap_or(phase)),
									&case,
									&text(),
									&format!("to-be-signed bytes differ from an earlier execution of the same case in this process: {}", hex(&x.tbs)),
								);
							} else if x.det && *rd != hd {
								ctx.violation(
									&format!("c15:output-differs:{}", phase.split(':').next().unwrap_or(phase)),
									&case,
									&text(),
									"complete output differs for a deterministic signature scheme",
								);
							}
						},
					}
				}
				events.lock().unwrap().push(Event {
					case: c.idx,
					phase: phase.to_string(),
					thread,
					round,
					tbs: ht,
					der: hd,
					det: x.det,
					t0,
					t1,
				});
			},
		}
	};

	// --- history part: three times back to back, then again after unrelated calls
	let mut rng = Rng::derive(ctx.seed, "c15-history", proc_id);
	// each process walks the table in its own order: output that depends on what was generated
	// before (a cache filled by the first caller, a counter) then differs between processes
	let mut order: Vec<usize> = (0..tab.len()).collect();
	if proc_id > 0 {
		rng.shuffle(&mut order);
	}
	for c in order.iter().map(|i| &tab[*i]) {
		if let Some(r) = &ctx.replay {
			if r.index != c.idx as u64 {
				continue;
			}
		}
		for rep in 0..3 {
			observe(c, "repeat", 0, rep);
		}
		unrelated_calls(&mut rng, keys, &iss);
		observe(c, "after-unrelated-calls", 0, 3);
	}
	if shared_fingerprint(keys, &iss) != fp0 {
		ctx.violation("c15:shared-state-changed:history", &CaseId::new("table", ctx.seed, 0), "history part", "a shared key or issuer reports different content after generation");
	}

	// --- thread part: T threads, each runs the whole table in its own order, M rounds, released by a barrier
	if ctx.replay.is_none() {
		for &t in thread_counts {
			let barrier = Arc::new(Barrier::new(t));
			let done = AtomicU64::new(0);
			std::thread::scope(|s| {
				for th in 0..t {
					let barrier = barrier.clone();
					let tab = &tab;
					let observe = &observe;
					let done = &done;
					s.spawn(move || {
						let mut rng = Rng::derive(ctx.seed, "c15-order", (proc_id << 20) | ((t as u64) << 8) | th as u64);
						barrier.wait();
						for round in 0..rounds {
							let mut order: Vec<usize> = (0..tab.len()).collect();
							rng.shuffle(&mut order);
							// few distinct cases at a time => the same case is in flight on several threads
							for &ci in &order {
								observe(&tab[ci], &format!("threads:{}", t), th, round);
								done.fetch_add(1, Ordering::Relaxed);
							}
						}
					});
				}
			});
			// exactly-once accounting for this phase
			let want = (t * rounds * tab.len()) as u64;
			let phase = format!("threads:{}", t);
			let got = events.lock().unwrap().iter().filter(|e| e.phase == phase).count() as u64;
			let failed = ctx.violations();
			if got != want && failed == 0 {
				ctx.inconclusive(&format!("event accounting: {} events recorded for {} expected in phase {}", got, want, phase));
			}
			if shared_fingerprint(keys, &iss) != fp0 {
				ctx.violation(
					&format!("c15:shared-state-changed:threads:{}", t),
					&CaseId::new("table", ctx.seed, 0),
					&phase,
					"a shared key or issuer reports different content after concurrent generation",
				);
			}
		}
	}
	let ev = events.into_inner().unwrap();
	// how much real overlap did the schedule give us? (same case in flight on two threads)
	let mut overlaps = 0u64;
	let mut by_case: std::collections::HashMap<(usize, String), Vec<(u64, u64, usize)>> = std::collections::HashMap::new();
	for e in ev.iter().filter(|e| e.phase.starts_with("threads")) {
		by_case.entry((e.case, e.phase.clone())).or_default().push((e.t0, e.t1, e.thread));
	}
	for v in by_case.values_mut() {
		v.sort();
		for i in 0..v.len() {
			for j in i + 1..v.len() {
				if v[j].0 >= v[i].1 {
					break;
				}
				if v[j].2 != v[i].2 {
					overlaps += 1;
				}
			}
		}
	}
	ctx.count_n("overlapping_same_case_execution_pairs", overlaps);
	ctx.count_n("dist:table_cases", tab.len() as u64);
	ctx.sample(|| format!("table case 0: {:?}", tab.first()));
	ctx.sample(|| format!("table case 2 (CSR): {:?}", tab.get(2)));
	ev
}

pub fn write_events(path: &std::path::Path, proc_id: u64, backend: &str, ev: &[Event], tab_portable: &[bool]) {
	let mut s = String::new();
	for e in ev {
		s.push_str(&format!(
			"{{\"proc\":{},\"backend\":{},\"case\":{},\"portable\":{},\"phase\":{},\"thread\":{},\"round\":{},\"tbs\":\"{:016x}\",\"der\":\"{:016x}\",\"det\":{}}}\n",
			proc_id,
			jstr(backend),
			e.case,
			tab_portable.get(e.case).cloned().unwrap_or(false),
			jstr(&e.phase),
			e.thread,
			e.round,
			e.tbs,
			e.der,
			e.det
		));
	}
	let _ = std::fs::write(path, s);
}
