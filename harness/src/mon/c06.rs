//! C06 – CSR acceptance is sound and issuance binds the requester's key.
//!
//! Everything rcgen ACCEPTS is judged independently: the signature must verify (OpenSSL) under
//! the embedded key over the embedded certificationRequestInfo bytes, the request must not ask
//! for anything rcgen does not carry over, and the certificate issued from it must embed the
//! request's SubjectPublicKeyInfo byte-for-byte and the requested subject / SAN / KU / EKU.
#![cfg(all(feature = "crypto", feature = "ossl"))]

use openssl::hash::MessageDigest;
use openssl::pkey::{PKey, Private};
use openssl::stack::Stack;
use openssl::x509::extension::{BasicConstraints, ExtendedKeyUsage, KeyUsage, SubjectAlternativeName};
use openssl::x509::{X509Extension, X509NameBuilder, X509ReqBuilder};
use pki_types::CertificateSigningRequestDer;
use rcgen::{Certificate, CertificateSigningRequestParams};

use crate::ctx::{par_for, CaseId, Ctx};
use crate::derx;
use crate::keys::PoolKey;
use crate::mutate;
use crate::ossl::{self, SigAlg};
use crate::spec::*;
use crate::util::{fnv64, hex, Rng};
use crate::x509;

pub struct Base {
	pub label: String,
	pub der: Vec<u8>,
}

fn null_md() -> MessageDigest {
	unsafe { MessageDigest::from_ptr(std::ptr::null()) }
}

/// CSRs made by OpenSSL: every key type x digests (pairings rcgen never produces), extensions, odd subjects
pub fn openssl_csrs(rng: &mut Rng, n: usize) -> Vec<Base> {
	openssl_csrs_with_keys(rng, n).into_iter().map(|x| x.0).collect()
}

/// the requests together with the key and digest that signed them (so that mutants can be re-signed)
pub fn openssl_csrs_with_keys(rng: &mut Rng, n: usize) -> Vec<(Base, PKey<Private>, MessageDigest)> {
	let mut keys: Vec<(String, PKey<Private>)> = Vec::new();
	for (name, nid) in [
		("p256", openssl::nid::Nid::X9_62_PRIME256V1),
		("p384", openssl::nid::Nid::SECP384R1),
		("p521", openssl::nid::Nid::SECP521R1),
		("secp256k1", openssl::nid::Nid::SECP256K1),
	] {
		let g = openssl::ec::EcGroup::from_curve_name(nid).unwrap();
		keys.push((name.into(), PKey::from_ec_key(openssl::ec::EcKey::generate(&g).unwrap()).unwrap()));
	}
	keys.push(("rsa2048".into(), PKey::from_rsa(openssl::rsa::Rsa::generate(2048).unwrap()).unwrap()));
	keys.push(("rsa1024".into(), PKey::from_rsa(openssl::rsa::Rsa::generate(1024).unwrap()).unwrap()));
	keys.push(("ed25519".into(), PKey::generate_ed25519().unwrap()));
	if let Ok(k) = PKey::generate_ed448() {
		keys.push(("ed448".into(), k));
	}
	let digests: Vec<(&str, MessageDigest)> = vec![
		("sha1", MessageDigest::sha1()),
		("sha224", MessageDigest::sha224()),
		("sha256", MessageDigest::sha256()),
		("sha384", MessageDigest::sha384()),
		("sha512", MessageDigest::sha512()),
		("sha3-256", MessageDigest::sha3_256()),
	];
	let mut out = Vec::new();
	let mut idx = 0;
	// first every pairing rcgen supports x every subject variant, then the pairings it never produces itself
	let supported: [(&str, &str); 6] = [("p256", "sha256"), ("p384", "sha384"), ("rsa2048", "sha256"), ("rsa2048", "sha384"), ("rsa2048", "sha512"), ("ed25519", "none")];
	let mut plan: Vec<(usize, usize, u64)> = Vec::new();
	for (k, d) in supported {
		for variant in 0..6u64 {
			let ki = keys.iter().position(|x| x.0 == k).unwrap();
			let di = digests.iter().position(|x| x.0 == d).unwrap_or(0);
			plan.push((ki, di, variant));
		}
	}
	let mut guard_iters = 0;
	while out.len() < n && guard_iters < n * 4 {
		guard_iters += 1;
		let (ki, di, planned_variant) = if idx < plan.len() { plan[idx] } else { (idx % keys.len(), (idx / keys.len()) % digests.len(), ((idx as u64) * 7 + (idx / keys.len()) as u64) % 6) };
		let (kn, key) = &keys[ki];
		let (dn, md) = if kn.starts_with("ed") { ("none", null_md()) } else { digests[di] };
		idx += 1;
		let mut b = match X509ReqBuilder::new() {
			Ok(b) => b,
			Err(_) => continue,
		};
		let mut nb = X509NameBuilder::new().unwrap();
		// deterministic cycle, so that every supported key/digest pairing meets every subject variant
		let variant = planned_variant;
		let _ = rng.below(6);
		let _ = nb.append_entry_by_text("CN", &gen_host(rng));
		if variant == 1 {
			let _ = nb.append_entry_by_text("OU", "a");
			let _ = nb.append_entry_by_text("OU", "b");
		}
		if variant == 3 {
			// attribute type with an arc that does not fit 64 bits (UUID-based OID)
			let _ = nb.append_entry_by_text("2.25.329800735698586629295641978511506172918", "uuid");
		}
		if variant == 2 {
			let _ = nb.append_entry_by_text("DC", "example");
			let _ = nb.append_entry_by_text("DC", "com");
			let _ = nb.append_entry_by_text("1.2.3.4", "custom");
		}
		let name = nb.build();
		let _ = b.set_subject_name(&name);
		let _ = b.set_pubkey(key);
		let _ = b.set_version(0);
		let mut exts = Stack::new().unwrap();
		let mut what = Vec::new();
		// planned requests (the supported pairings) always carry a SAN, with the otherName value type cycling
		// deterministically, so that every supported pairing meets every value type at every seed
		let planned = idx <= plan.len();
		let planned_tag: Option<u8> = if planned { [None, Some(0x0cu8), Some(0x16), Some(0x13), Some(0x1e), Some(0x04)][((idx - 1) / 6 + (idx - 1)) % 6] } else { None };
		if planned || rng.chance(2, 3) {
			let mut s = SubjectAlternativeName::new();
			if !planned && rng.chance(1, 6) {
				// valid UTF-8 but not IA5: OpenSSL writes it unchecked
				s.dns(&format!("m\u{fc}nchen.{}", gen_host(rng)));
			} else {
				s.dns(&gen_host(rng));
			}
			if rng.chance(1, 2) {
				s.ip("192.0.2.7");
			}
			if rng.chance(1, 3) {
				s.email("a@example.com");
			}
			if rng.chance(1, 4) {
				s.uri("https://example.com/x");
			}
			let random_other = rng.chance(1, 3);
			let random_tag = *rng.pick(&[0x0cu8, 0x0c, 0x16, 0x13, 0x1e, 0x04]);
			if planned_tag.is_some() || (!planned && random_other) {
				// otherName whose value is a UTF8String (what rcgen can represent) or another string type
				// (SRVName is an IA5String): the request is refused, or the issued certificate says the same
				let tag = planned_tag.unwrap_or(random_tag);
				let text: &[u8] = if tag == 0x1e { b"\0s\0r\0v" } else { b"srv.example-1" };
				let mut val = vec![tag, text.len() as u8];
				val.extend_from_slice(text);
				if let Ok(oid) = openssl::asn1::Asn1Object::from_str(*rng.pick(&["1.3.6.1.5.5.7.8.7", "1.3.6.1.4.1.311.20.2.3", "1.2.3.4"])) {
					s.other_name2(oid, &val);
				}
			}
			if let Ok(e) = s.build(&b.x509v3_context(None)) {
				let _ = exts.push(e);
				what.push("san");
			}
		}
		if rng.chance(1, 2) {
			let mut k = KeyUsage::new();
			k.critical().digital_signature();
			if rng.chance(1, 2) {
				k.key_encipherment();
			}
			if rng.chance(1, 4) {
				k.decipher_only().key_agreement();
			}
			if let Ok(e) = k.build() {
				let _ = exts.push(e);
				what.push("ku");
			}
		}
		if rng.chance(1, 2) {
			let mut k = ExtendedKeyUsage::new();
			k.server_auth();
			if rng.chance(1, 2) {
				k.client_auth();
			}
			if rng.chance(1, 4) {
				k.other("1.3.6.1.4.1.311.20.2.2");
				what.push("eku-other");
			}
			if let Ok(e) = k.build() {
				let _ = exts.push(e);
				what.push("eku");
			}
		}
		if rng.chance(1, 5) {
			let mut bc = BasicConstraints::new();
			if rng.chance(1, 2) {
				bc.ca();
			}
			if let Ok(e) = bc.build() {
				let _ = exts.push(e);
				what.push("bc");
			}
		}
		if rng.chance(1, 6) {
			if let (Ok(oid), Ok(val)) = (openssl::asn1::Asn1Object::from_str("1.2.3.4.5.6"), openssl::asn1::Asn1OctetString::new_from_bytes(&[5, 0])) {
				if let Ok(e) = X509Extension::new_from_der(&oid, rng.chance(1, 2), &val) {
					let _ = exts.push(e);
					what.push("unknown-ext");
				}
			}
		}
		if !what.is_empty() {
			let _ = b.add_extensions(&exts);
		}
		if b.sign(key, md).is_err() {
			continue;
		}
		if let Ok(der) = b.build().to_der() {
			out.push((
				Base {
					label: format!("openssl:{}:{}:subjvar{}:{}", kn, dn, variant, what.join("+")),
					der,
				},
				key.clone(),
				md,
			));
		}
	}
	out
}

/// CSRs made by rcgen for pool keys
pub fn rcgen_csrs(rng: &mut Rng, pool: &[PoolKey], n: usize) -> Vec<Base> {
	let mut out = Vec::new();
	let mut i = 0;
	while out.len() < n && i < n * 3 {
		let k = &pool[i % pool.len()];
		i += 1;
		let mut spec = ParamSpec::minimal();
		spec.subject = gen_name(rng, 5);
		let b = rng.below(16);
		let with_custom = b & 8 != 0 && rng.chance(1, 3);
		fill_presence(
			rng,
			&mut spec,
			Presence {
				ku: b & 1 != 0,
				san: b & 2 != 0,
				eku: b & 4 != 0,
				custom: with_custom,
				..Default::default()
			},
		);
		spec.nc = None;
		if !spec.sans.is_empty() && rng.chance(1, 5) {
			// a second subjectAltName extension inside the same extensionRequest (as a caller-supplied
			// extension): the request asks for the names of both
			let h = format!("second.{}", gen_host(rng));
			let mut gn = vec![0x82, h.len() as u8];
			gn.extend_from_slice(h.as_bytes());
			let mut content = vec![0x30, gn.len() as u8];
			content.extend(gn);
			spec.custom.push(CustomExtSpec { oid: x509::OID_SAN.to_vec(), critical: false, content });
		}
		if let Ok(Ok(csr)) = crate::guard(|| spec.to_rcgen(None).serialize_request(&k.kp)) {
			out.push(Base {
				label: format!("rcgen:{}:ku={} san={} eku={} custom={}", k.label, spec.ku != 0, spec.sans.len(), spec.ekus.len(), spec.custom.len()),
				der: csr.der().to_vec(),
			});
		}
	}
	out
}

/// Independent (BER tolerant) view of what a request contains
struct ReqView {
	cri: Vec<u8>,
	alg: Vec<u8>,
	sig: Vec<u8>,
	spki: Vec<u8>,
	subject: Option<x509::Name>,
	/// (oid, value) of requested extensions, None if not decodable
	exts: Option<Vec<x509::Ext>>,
}

fn view(der: &[u8]) -> Result<ReqView, String> {
	// the outer element may be followed by trailing bytes that rcgen's parser ignores
	// x509-parser does not insist on the class / constructed bits of the unsigned wrapper elements
	// and ignores elements after the third: none of that touches the signed bytes, the key or the
	// signature, so the oracle reads the wrapper just as tolerantly.
	let (top, _rest) = derx::parse_one(der, false)?;
	let k = derx::parse_all(top.content, false)?;
	if k.len() < 3 {
		return Err("fewer than 3 elements".into());
	}
	let cri = k[0].raw.to_vec();
	let alg = k[1].raw.to_vec();
	if k[2].content.is_empty() {
		return Err("empty signature".into());
	}
	let sig = k[2].content[1..].to_vec();
	let ck = derx::parse_all(k[0].content, false)?;
	if ck.len() < 3 {
		return Err("CRI too short".into());
	}
	let spki = ck[2].raw.to_vec();
	let subject = x509::parse_name(&ck[1]).ok();
	let mut exts = Some(Vec::new());
	if let Some(attrs) = ck.get(3) {
		for a in attrs.children(false).unwrap_or_default() {
			let ak = a.children(false).unwrap_or_default();
			if ak.len() == 2 && ak[0].is_univ(derx::OID) && derx::decode_oid(ak[0].content).ok().as_deref() == Some(x509::OID_EXT_REQ) {
				for v in ak[1].children(false).unwrap_or_default() {
					match lenient_extensions(&v) {
						Some(mut e) => {
							if let Some(x) = exts.as_mut() {
								x.append(&mut e)
							}
						},
						None => exts = None,
					}
				}
			}
		}
	}
	Ok(ReqView {
		cri,
		alg,
		sig,
		spki,
		subject,
		exts,
	})
}

/// signature algorithm named by an AlgorithmIdentifier element, whatever its own tag byte says
fn sigalg_lenient(alg_tlv: &[u8]) -> Option<SigAlg> {
	let (t, _) = derx::parse_one(alg_tlv, false).ok()?;
	// only the leading OID identifies the algorithm; whatever follows it inside the (unsigned) outer
	// AlgorithmIdentifier may be garbage that the parser under test does not look at either
	let (first, _) = derx::parse_one(t.content, false).ok()?;
	let oid = derx::decode_oid(first.content).ok()?;
	[
		SigAlg::RsaSha256,
		SigAlg::RsaSha384,
		SigAlg::RsaSha512,
		SigAlg::EcdsaSha256,
		SigAlg::EcdsaSha384,
		SigAlg::EcdsaSha512,
		SigAlg::Ed25519,
	]
	.into_iter()
	.find(|a| {
		let d = a.alg_id_der();
		let (t, _) = derx::parse_one(&d, true).unwrap();
		let k = t.children(true).unwrap();
		derx::decode_oid(k[0].content).unwrap() == oid
	})
}

fn lenient_extensions(t: &derx::Tlv<'_>) -> Option<Vec<x509::Ext>> {
	let mut out = Vec::new();
	for e in t.children(false).ok()? {
		let k = e.children(false).ok()?;
		if k.len() < 2 || k.len() > 3 {
			return None;
		}
		let oid = derx::decode_oid(k[0].content).ok()?;
		let critical = k.len() == 3 && k[1].content.first().map_or(false, |b| *b != 0);
		out.push(x509::Ext {
			oid,
			critical,
			value: k[k.len() - 1].content.to_vec(),
		});
	}
	Some(out)
}

fn sorted(mut v: Vec<String>) -> Vec<String> {
	v.sort();
	v
}

struct Env {
	ca: Certificate,
	ca_key: rcgen::KeyPair,
}

fn offer(ctx: &Ctx, env: &Env, case: &CaseId, label: &str, der: &[u8]) {
	ctx.count("eval:offered");
	let text = format!("{} der={}", label, hex(der));
	let r = crate::guard(|| CertificateSigningRequestParams::from_der(&CertificateSigningRequestDer::from(der.to_vec())));
	let parsed = match r {
		Err(p) => {
			ctx.count("eval:panicked");
			return ctx.violation("c06:parse-panic", case, &text, &p);
		},
		Ok(Err(_)) => return ctx.count("eval:rejected"),
		Ok(Ok(p)) => p,
	};
	ctx.count("eval:accepted");
	let v = match view(der) {
		Ok(v) => v,
		Err(e) => {
			ctx.count("accepted_but_not_splittable_by_the_oracle");
			ctx.note(format!("oracle cannot split an accepted request ({}): {}", e, crate::util::clip(&hex(der), 200)));
			return;
		},
	};
	// (1) the signature verifies under the embedded key over the embedded CRI
	match sigalg_lenient(&v.alg) {
		None => ctx.violation("c06:accepted-unknown-signature-algorithm", case, &text, &format!("outer AlgorithmIdentifier {}", hex(&v.alg))),
		Some(alg) => match ossl::verify_raw(alg, &v.spki, &v.cri, &v.sig) {
			Ok(true) => ctx.count("eval:accepted_and_independently_verified"),
			Ok(false) => ctx.violation(
				&format!("c06:accepted-with-invalid-signature:{:?}", alg),
				case,
				&text,
				"rcgen accepts the request but its signature does not verify under the embedded key over the embedded certificationRequestInfo",
			),
			Err(e) => ctx.violation(
				&format!("c06:accepted-but-key-unusable:{:?}", alg),
				case,
				&text,
				&format!("rcgen accepts the request but OpenSSL cannot use the embedded key with the stated algorithm: {}", e),
			),
		},
	}
	// What a request "asks for" is only defined when it is a well-formed RFC 2986 structure: the parser
	// under test (x509-parser) is lenient about tags and stops silently at malformed RDNs / extensions, so
	// for requests that are not strictly valid DER only signature soundness and key binding are judged.
	let strict = {
		let mut errs = Vec::new();
		derx::check_canonical(&v.cri, "cri", &mut errs);
		let attrs_ok = derx::parse_exact(&v.cri, true)
			.and_then(|t| t.children(true))
			.map(|k| {
				k.len() == 4
					&& k[3].is_ctx(0) && k[3].constructed
					&& k[3].children(true).map_or(false, |attrs| {
						// more than one extensionRequest attribute: which one "the request" means is not defined
						attrs
							.iter()
							.filter(|a| a.children(true).map_or(false, |ak| !ak.is_empty() && derx::decode_oid(ak[0].content).ok().as_deref() == Some(x509::OID_EXT_REQ)))
							.count() <= 1 && attrs.iter().all(|a| {
							a.is_univ(derx::SEQUENCE)
								&& a.children(true).map_or(false, |ak| {
									ak.len() == 2
										&& ak[0].is_univ(derx::OID) && !ak[0].constructed
										&& ak[1].is_univ(derx::SET)
										&& (derx::decode_oid(ak[0].content).ok().as_deref() != Some(x509::OID_EXT_REQ)
											|| x509::parse_extension_request(ak[1].raw).map_or(false, |exts| {
												let mut e2 = Vec::new();
												for e in &exts {
													x509::check_known_extension(e, &mut e2, "req");
												}
												e2.is_empty()
											}))
								})
						})
					})
			})
			.unwrap_or(false);
		errs.is_empty() && attrs_ok && v.subject.is_some()
	};
	ctx.count(if strict { "eval:accepted_strictly_valid_requests" } else { "accepted_malformed_requests_judged_on_signature_and_key_only" });
	// (2) nothing is asked that rcgen does not carry over
	let std_ekus: Vec<Vec<u64>> = STD_EKUS.iter().map(|e| e.oid()).collect();
	let mut req_san = Vec::new();
	let mut req_ku: Option<u16> = None;
	let mut req_eku: Vec<String> = Vec::new();
	match &v.exts {
		None => ctx.count("accepted_request_extensions_not_decodable_by_oracle"),
		Some(_) if !strict => {},
		Some(exts) => {
			for e in exts {
				if e.oid == x509::OID_SAN {
					if let Ok(n) = x509::parse_san(&e.value) {
						req_san.extend(n.iter().map(gn_key));
					}
				} else if e.oid == x509::OID_KU {
					req_ku = crate::mon::certs_ku_lenient(&e.value);
				} else if e.oid == x509::OID_EKU {
					if let Ok(o) = x509::parse_eku(&e.value) {
						for x in &o {
							if !std_ekus.contains(x) {
								ctx.violation("c06:accepted-unsupported-eku", case, &text, &format!("the request asks for extended key usage {:?}, which is not carried over", x));
							}
						}
						req_eku.extend(o.iter().map(|x| format!("{:?}", x)));
					}
				} else {
					ctx.violation(
						"c06:accepted-unsupported-extension",
						case,
						&text,
						&format!("the request asks for extension {:?}, which rcgen cannot carry over, and was accepted", e.oid),
					);
				}
			}
		},
	}
	// (3) issue and compare
	let issued = match crate::guard(|| parsed.signed_by(&env.ca, &env.ca_key)) {
		Err(p) => return ctx.violation("c06:issue-panic", case, &text, &p),
		// no certificate is issued, so nothing can be wrong with it; noted, not a violation
		Ok(Err(_)) => return ctx.count("accepted_request_not_issuable"),
		Ok(Ok(c)) => c,
	};
	ctx.count("eval:issued");
	let cv = match x509::parse_certificate(issued.der()) {
		Ok(c) => c,
		Err(e) => return ctx.violation("c06:issued-undecodable", case, &text, &e),
	};
	if cv.spki.raw != v.spki {
		ctx.violation(
			"c06:issued-spki-differs",
			case,
			&text,
			&format!("certificate SPKI {} request SPKI {}", hex(&cv.spki.raw), hex(&v.spki)),
		);
	}
	if let (Some(subj), true) = (&v.subject, strict) {
		if name_key(&cv.subject) != name_key(subj) {
			ctx.violation("c06:issued-subject-differs", case, &text, &format!("certificate {} request {}", name_key(&cv.subject), name_key(subj)));
		}
	}
	if v.exts.is_some() && strict {
		let cext = |oid: &[u64]| cv.exts.iter().flatten().find(|e| e.oid == oid).map(|e| e.value.clone());
		let got_san: Vec<String> = cext(x509::OID_SAN).and_then(|v| x509::parse_san(&v).ok()).map(|n| n.iter().map(gn_key).collect()).unwrap_or_default();
		if sorted(got_san.clone()) != sorted(req_san.clone()) {
			ctx.violation("c06:issued-san-differs", case, &text, &format!("certificate {:?} request {:?}", got_san, req_san));
		}
		let got_ku = cext(x509::OID_KU).and_then(|v| crate::mon::certs_ku_lenient(&v));
		if got_ku.unwrap_or(0) != req_ku.unwrap_or(0) {
			ctx.violation("c06:issued-ku-differs", case, &text, &format!("certificate {:?} request {:?}", got_ku, req_ku));
		}
		let mut got_eku: Vec<String> = cext(x509::OID_EKU).and_then(|v| x509::parse_eku(&v).ok()).map(|o| o.iter().map(|x| format!("{:?}", x)).collect()).unwrap_or_default();
		got_eku.sort();
		got_eku.dedup();
		req_eku.sort();
		req_eku.dedup();
		if got_eku != req_eku {
			ctx.violation("c06:issued-eku-differs", case, &text, &format!("certificate {:?} request {:?}", got_eku, req_eku));
		}
	}
}

pub fn run(ctx: &Ctx, pool: &[PoolKey]) {
	let ca_key = rcgen::KeyPair::generate().expect("keygen");
	let mut p = ParamSpec::minimal();
	p.is_ca = IsCaSpec::Ca(None);
	let ca = p.to_rcgen(None).self_signed(&ca_key).expect("ca");
	let env = Env { ca, ca_key };
	let mut rng = Rng::derive(ctx.seed, "c06-bases", 0);
	let locals: Vec<&PoolKey> = pool.iter().filter(|k| !k.is_remote()).collect();
	let mut bases: Vec<Base> = Vec::new();
	let owned: Vec<PoolKey> = Vec::new();
	let _ = owned;
	{
		let lp: Vec<PoolKey> = Vec::new();
		let _ = lp;
	}
	// rcgen-made: walk the local pool keys
	{
		let mut i = 0;
		let want = ctx.scale(24, 300) as usize;
		while bases.len() < want && i < want * 3 {
			let k = locals[i % locals.len()];
			i += 1;
			let mut spec = ParamSpec::minimal();
			spec.subject = gen_name(&mut rng, 5);
			let b = rng.below(16);
			let with_custom = b & 8 != 0 && rng.chance(1, 3);
			fill_presence(&mut rng, &mut spec, Presence { ku: b & 1 != 0, san: b & 2 != 0, eku: b & 4 != 0, custom: with_custom, ..Default::default() });
			spec.nc = None;
			let made = crate::guard(|| spec.to_rcgen(None).serialize_request(&k.kp));
			if made.is_err() {
				ctx.count("base_request_generation_panicked");
			}
			if let Ok(Ok(csr)) = made {
				bases.push(Base {
					label: format!("rcgen:{}:ku={} san={} eku={} custom={}", k.label, spec.ku != 0, spec.sans.len(), spec.ekus.len(), spec.custom.len()),
					der: csr.der().to_vec(),
				});
			}
		}
	}
	let n_rcgen = bases.len();
	let signed = openssl_csrs_with_keys(&mut rng, ctx.scale(84, 400) as usize);
	bases.extend(signed.iter().map(|x| Base { label: x.0.label.clone(), der: x.0.der.clone() }));
	ctx.note(format!("{} base requests ({} by rcgen, {} by OpenSSL)", bases.len(), n_rcgen, bases.len() - n_rcgen));
	let donors: Vec<Vec<mutate::Node>> = bases.iter().filter_map(|b| mutate::parse_tree(&b.der, 0)).collect();

	// --- base requests as they are
	if ctx.replay.as_ref().map_or(true, |r| r.workload == "base") {
		for (i, b) in bases.iter().enumerate() {
			if let Some(r) = &ctx.replay {
				if r.index != i as u64 {
					continue;
				}
			}
			let case = CaseId::new("base", ctx.seed, i as u64);
			let before = ctx.get_count("eval:accepted");
			offer(ctx, &env, &case, &b.label, &b.der);
			ctx.note(format!("base {}: {}", b.label, if ctx.get_count("eval:accepted") > before { "accepted" } else { "rejected" }));
			ctx.count("dist:base_requests");
			ctx.sample(|| format!("base: {} ({} bytes)", b.label, b.der.len()));
		}
	}
	// --- every single-bit flip of the smallest Ed25519 and P-256 requests made by rcgen (and one OpenSSL one)
	if ctx.replay.as_ref().map_or(true, |r| r.workload == "bitflips") {
		let mut targets: Vec<usize> = Vec::new();
		for pat in ["rcgen:ed25519", "rcgen:p256", "openssl:p256:sha256", "rcgen:rsa2048", "openssl:p384:sha256", "rcgen:p521", "openssl:p521:sha512", "openssl:p384:sha384"] {
			if let Some((i, _)) = bases.iter().enumerate().filter(|(_, b)| b.label.starts_with(pat)).min_by_key(|(_, b)| b.der.len()) {
				targets.push(i);
			}
		}
		if !ctx.quick() {
			targets = (0..bases.len()).collect();
		}
		for ti in targets {
			let b = &bases[ti];
			let nbits = b.der.len() as u64 * 8;
			par_for(nbits, ctx.threads, |bit| {
				let idx = ti as u64 * 1_000_000 + bit;
				if let Some(r) = &ctx.replay {
					if r.index != idx {
						return;
					}
				}
				let case = CaseId::new("bitflips", ctx.seed, idx);
				let mut m = b.der.clone();
				m[(bit / 8) as usize] ^= 0x80 >> (bit % 8);
				offer(ctx, &env, &case, &format!("{} bit {} flipped", b.label, bit), &m);
				ctx.count("dist:single_bit_flips");
			});
			ctx.sample(|| format!("bitflips: all {} single-bit flips of {}", nbits, b.label));
		}
	}
	// --- random structure-aware and byte-level mutations
	if ctx.replay.as_ref().map_or(true, |r| r.workload == "mutants") {
		let n = ctx.scale(25_000, 2_000_000);
		par_for(n, ctx.threads, |i| {
			if let Some(r) = &ctx.replay {
				if r.index != i {
					return;
				}
			}
			let case = CaseId::new("mutants", ctx.seed, i);
			let mut rng = case.rng();
			let b = &bases[(i % bases.len() as u64) as usize];
			let (m, desc) = mutate::mutant(&mut rng, &b.der, &donors);
			if m == b.der {
				return;
			}
			offer(ctx, &env, &case, &format!("{} mutated by {}", b.label, desc), &m);
			ctx.distinct(fnv64(&m));
			ctx.sample(|| format!("mutant: {} mutated by {}", b.label, desc));
		});
	}
	// --- mutants of the to-be-signed part that are RE-SIGNED with the requester's key: validly signed odd requests
	if ctx.replay.as_ref().map_or(true, |r| r.workload == "resigned") {
		let n = ctx.scale(12_000, 600_000);
		par_for(n, ctx.threads, |i| {
			if let Some(r) = &ctx.replay {
				if r.index != i {
					return;
				}
			}
			let case = CaseId::new("resigned", ctx.seed, i);
			let mut rng = case.rng();
			let (b, key, md) = &signed[(i % signed.len() as u64) as usize];
			let parts = match derx::parse_exact(&b.der, true).and_then(|t| t.children(true).map(|k| (k[0].raw.to_vec(), k[1].raw.to_vec()))) {
				Ok(p) => p,
				Err(_) => return,
			};
			let mut tree = match mutate::parse_tree(&parts.0, 0) {
				Some(t) => t,
				None => return,
			};
			let mut descs = Vec::new();
			for _ in 0..1 + rng.below(2) {
				descs.push(mutate::mutate_tree(&mut rng, &mut tree, &donors));
			}
			let cri = mutate::serialise(&tree);
			if cri == parts.0 {
				return;
			}
			let is_ed = b.label.contains(":ed25519:") || b.label.contains(":ed448:");
			let sig = if is_ed {
				openssl::sign::Signer::new_without_digest(key).and_then(|mut s| s.sign_oneshot_to_vec(&cri))
			} else {
				openssl::sign::Signer::new(*md, key).and_then(|mut s| {
					s.update(&cri)?;
					s.sign_to_vec()
				})
			};
			let sig = match sig {
				Ok(s) => s,
				Err(_) => return,
			};
			let mut body = cri.clone();
			body.extend(&parts.1);
			body.push(0x03);
			mutate::encode_len(sig.len() + 1, &mut body);
			body.push(0);
			body.extend(&sig);
			let mut der = vec![0x30];
			mutate::encode_len(body.len(), &mut der);
			der.extend(body);
			ctx.count("eval:resigned_mutants");
			offer(ctx, &env, &case, &format!("{} CRI mutated by {} and re-signed by the requester's key", b.label, descs.join("+")), &der);
			ctx.distinct(fnv64(&der));
			ctx.sample(|| format!("resigned: {} CRI mutated by {}", b.label, descs.join("+")));
		});
	}
	// conservation: every offered input was classified
	let off = ctx.get_count("eval:offered");
	let acc = ctx.get_count("eval:accepted");
	let rej = ctx.get_count("eval:rejected");
	let pan = ctx.get_count("eval:panicked");
	if off != acc + rej + pan {
		ctx.inconclusive(&format!("event accounting broken: offered {} != accepted {} + rejected {} + panicked {}", off, acc, rej, pan));
	}
	if ctx.replay.is_none() && (acc < 20 || rej < 100) {
		ctx.inconclusive(&format!("too few observations: accepted {} rejected {}", acc, rej));
	}
}

