//! C20 – a distinguished name is an insertion-ordered map under any edit history.
//!
//! Oracle: a Vec<(DnType, DnValue)> model (push = replace in place or append; remove = delete).
//! Workload: bounded-exhaustive histories over a 4-type x 2-value alphabet, random long histories
//! over 12 types and all six value kinds, and certificates built from reached states.

use rcgen::{CertificateParams, DistinguishedName, DnType, DnValue};

use crate::ctx::{par_for, CaseId, Ctx};
use crate::spec::{dn_value, StrKind, ALL_KINDS};
use crate::util::{fnv64, Rng};
use crate::x509;

type Model = Vec<(DnType, DnValue)>;

#[derive(Clone, Debug)]
enum Op {
	Push(usize, usize),
	Remove(usize),
}

fn small_types() -> Vec<DnType> {
	vec![
		DnType::CountryName,
		DnType::CommonName,
		DnType::CustomDnType(vec![1, 2, 3, 4]),
		// same OID as CommonName, but a different attribute type as far as the API goes
		DnType::CustomDnType(vec![2, 5, 4, 3]),
	]
}

fn small_values() -> Vec<DnValue> {
	// one ordinary and one EMPTY value (an encoder that skips empty values would lose an attribute)
	vec![dn_value(StrKind::Utf8, "a"), dn_value(StrKind::Printable, "")]
}

fn big_types() -> Vec<DnType> {
	vec![
		DnType::CountryName,
		DnType::LocalityName,
		DnType::StateOrProvinceName,
		DnType::OrganizationName,
		DnType::OrganizationalUnitName,
		DnType::CommonName,
		DnType::CustomDnType(vec![1, 2, 3, 4]),
		DnType::CustomDnType(vec![2, 5, 4, 3]),
		DnType::CustomDnType(vec![0, 9, 2342, 19200300, 100, 1, 25]),
		DnType::CustomDnType(vec![2, 5, 4, 5]),
		DnType::CustomDnType(vec![1, 2, 840, 113549, 1, 9, 1]),
		DnType::CustomDnType(vec![2, 999, 1]),
	]
}

fn model_apply(m: &mut Model, types: &[DnType], values: &[DnValue], op: &Op) -> Option<bool> {
	match op {
		Op::Push(t, v) => {
			if let Some(e) = m.iter_mut().find(|(ty, _)| ty == &types[*t]) {
				e.1 = values[*v].clone();
			} else {
				m.push((types[*t].clone(), values[*v].clone()));
			}
			None
		},
		Op::Remove(t) => {
			let before = m.len();
			m.retain(|(ty, _)| ty != &types[*t]);
			Some(m.len() != before)
		},
	}
}

fn real_apply(dn: &mut DistinguishedName, types: &[DnType], values: &[DnValue], op: &Op) -> Option<bool> {
	match op {
		Op::Push(t, v) => {
			dn.push(types[*t].clone(), values[*v].clone());
			None
		},
		Op::Remove(t) => Some(dn.remove(types[*t].clone())),
	}
}

fn rebuild(m: &Model) -> DistinguishedName {
	let mut dn = DistinguishedName::new();
	for (t, v) in m {
		dn.push(t.clone(), v.clone());
	}
	dn
}

/// compare the real name against the model; returns the first discrepancy
fn compare(dn: &DistinguishedName, m: &Model, types: &[DnType]) -> Result<(), (String, String)> {
	let got: Vec<(DnType, DnValue)> = dn.iter().map(|(t, v)| (t.clone(), v.clone())).collect();
	if &got != m {
		return Err(("iter".into(), format!("iter()={:?} model={:?}", got, m)));
	}
	for t in types {
		let want = m.iter().find(|(ty, _)| ty == t).map(|(_, v)| v);
		if dn.get(t) != want {
			return Err(("get".into(), format!("get({:?})={:?} model={:?}", t, dn.get(t), want)));
		}
	}
	let rb = rebuild(m);
	if dn != &rb || &rb != dn {
		return Err(("eq-rebuilt".into(), format!("name != name rebuilt from its own enumeration {:?}", m)));
	}
	// equality means equality of the enumeration: the same pairs in another order, or with one value changed, are another name
	if m.len() >= 2 {
		let mut rot = m.clone();
		rot.rotate_left(1);
		let other = rebuild(&rot);
		if (dn == &other) != (&rot == m) || (&other == dn) != (&rot == m) {
			return Err(("eq-permuted".into(), format!("name with enumeration {:?} compares equal to the name with enumeration {:?}", m, rot)));
		}
		let mut rev = m.clone();
		rev.reverse();
		let other = rebuild(&rev);
		if (dn == &other) != (&rev == m) {
			return Err(("eq-permuted".into(), format!("name with enumeration {:?} compares equal to the name with enumeration {:?}", m, rev)));
		}
	}
	Ok(())
}

fn ops_text(ops: &[Op]) -> String {
	ops.iter()
		.map(|o| match o {
			Op::Push(t, v) => format!("push(t{},v{})", t, v),
			Op::Remove(t) => format!("remove(t{})", t),
		})
		.collect::<Vec<_>>()
		.join(";")
}

/// check that a certificate built from `dn` carries exactly the model's sequence as subject
fn check_cert(ctx: &Ctx, case: &CaseId, key: &rcgen::KeyPair, dn: &DistinguishedName, m: &Model, hist: &str) {
	let mut p = CertificateParams::default();
	p.distinguished_name = dn.clone();
	p.serial_number = Some(rcgen::SerialNumber::from_slice(&[1]));
	let r = crate::guard(|| p.self_signed(key));
	ctx.count("cert_built");
	let cert = match r {
		Err(pn) => return ctx.violation("c20:cert-panic", case, hist, &pn),
		Ok(Err(e)) => {
			// two attributes with the same OID are still a valid name; nothing here may fail
			return ctx.violation("c20:cert-error", case, hist, &format!("{}", e));
		},
		Ok(Ok(c)) => c,
	};
	match x509::parse_certificate(cert.der()) {
		Err(e) => ctx.violation("c20:cert-undecodable", case, hist, &e),
		Ok(v) => {
			let got: Vec<(Vec<u64>, String)> = v
				.subject
				.flat()
				.iter()
				.map(|a| (a.oid.clone(), a.text().unwrap_or_else(|e| format!("<{}>", e))))
				.collect();
			let want: Vec<(Vec<u64>, String)> = m.iter().map(|(t, v)| (type_oid(t), value_text(v))).collect();
			if got != want || v.subject.rdns.iter().any(|r| r.len() != 1) {
				ctx.violation(
					"c20:cert-subject-order",
					case,
					hist,
					&format!("subject in certificate {:?} != enumeration {:?}", got, want),
				);
			}
			if v.subject.raw != v.issuer.raw {
				ctx.violation("c20:self-signed-issuer", case, hist, "issuer != subject in a self-signed certificate");
			}
		},
	}
}

/// The name is edited IN PLACE inside a long-lived `CertificateParams` and written (by reference, as a
/// CSR) between the edits: anything the name remembers from an earlier encoding must not outlive an edit.
fn check_inplace(ctx: &Ctx, case: &CaseId, key: &rcgen::KeyPair, params: &CertificateParams, m: &Model, hist: &str) {
	ctx.count("csr_built_in_place");
	let csr = match crate::guard(|| params.serialize_request(key)) {
		Err(pn) => return ctx.violation("c20:cert-panic", case, hist, &pn),
		Ok(Err(e)) => return ctx.violation("c20:cert-error", case, hist, &format!("{}", e)),
		Ok(Ok(c)) => c,
	};
	match x509::parse_csr(csr.der()) {
		Err(e) => ctx.violation("c20:cert-undecodable", case, hist, &e),
		Ok(v) => {
			let got: Vec<(Vec<u64>, String)> = v.subject.flat().iter().map(|a| (a.oid.clone(), a.text().unwrap_or_else(|e| format!("<{}>", e)))).collect();
			let want: Vec<(Vec<u64>, String)> = m.iter().map(|(t, v)| (type_oid(t), value_text(v))).collect();
			if got != want {
				ctx.violation("c20:inplace-subject-order", case, hist, &format!("subject written after in-place edits {:?} != enumeration {:?}", got, want));
			}
		},
	}
}

fn type_oid(t: &DnType) -> Vec<u64> {
	match t {
		DnType::CountryName => vec![2, 5, 4, 6],
		DnType::LocalityName => vec![2, 5, 4, 7],
		DnType::StateOrProvinceName => vec![2, 5, 4, 8],
		DnType::OrganizationName => vec![2, 5, 4, 10],
		DnType::OrganizationalUnitName => vec![2, 5, 4, 11],
		DnType::CommonName => vec![2, 5, 4, 3],
		DnType::CustomDnType(o) => o.clone(),
		_ => vec![],
	}
}

fn value_text(v: &DnValue) -> String {
	match v {
		DnValue::Utf8String(s) => s.clone(),
		DnValue::PrintableString(s) => s.as_str().to_string(),
		DnValue::Ia5String(s) => s.as_str().to_string(),
		DnValue::TeletexString(s) => s.as_str().to_string(),
		DnValue::BmpString(s) => crate::x509::decode_string(crate::derx::BMP, s.as_bytes()).unwrap(),
		DnValue::UniversalString(s) => crate::x509::decode_string(crate::derx::UNIVERSAL, s.as_bytes()).unwrap(),
		_ => String::new(),
	}
}

struct Dfs<'a> {
	ctx: &'a Ctx,
	case: CaseId,
	types: Vec<DnType>,
	values: Vec<DnValue>,
	ops: Vec<Op>,
	max_len: usize,
	cert_depth: usize,
	key: &'a rcgen::KeyPair,
	states: std::collections::HashSet<u64>,
	steps: u64,
	histories: u64,
}

impl<'a> Dfs<'a> {
	fn all_ops(&self) -> Vec<Op> {
		let mut v = Vec::new();
		for t in 0..self.types.len() {
			for val in 0..self.values.len() {
				v.push(Op::Push(t, val));
			}
			v.push(Op::Remove(t));
		}
		v
	}

	fn go(&mut self, dn: &DistinguishedName, m: &Model) {
		self.histories += 1;
		if self.ops.len() <= self.cert_depth {
			check_cert(self.ctx, &self.case, self.key, dn, m, &ops_text(&self.ops));
		}
		if self.ops.len() >= self.max_len {
			return;
		}
		for op in self.all_ops() {
			let mut dn2 = dn.clone();
			let mut m2 = m.clone();
			let want = model_apply(&mut m2, &self.types, &self.values, &op);
			let got = real_apply(&mut dn2, &self.types, &self.values, &op);
			self.ops.push(op);
			self.steps += 1;
			if got != want {
				let h = ops_text(&self.ops);
				self.ctx.violation("c20:remove-result", &self.case, &h, &format!("remove returned {:?}, model {:?}", got, want));
			}
			if let Err((what, d)) = compare(&dn2, &m2, &self.types) {
				let h = ops_text(&self.ops);
				self.ctx.violation(&format!("c20:{}", what), &self.case, &h, &d);
			}
			// equality between parent and child state must mirror equality of enumerations
			if (dn == &dn2) != (m == &m2) {
				let h = ops_text(&self.ops);
				self.ctx.violation(
					"c20:eq-vs-enumeration",
					&self.case,
					&h,
					&format!("dn==dn' is {} but enumerations equal is {}", dn == &dn2, m == &m2),
				);
			}
			self.states.insert(fnv64(format!("{:?}", m2).as_bytes()));
			self.go(&dn2, &m2);
			self.ops.pop();
		}
	}
}

pub fn run(ctx: &Ctx) {
	let key = crate::any_key();
	let max_len = if ctx.quick() { 6 } else { 7 };
	let (max_len, cert_depth) = if cfg!(miri) { (2, 1) } else { (max_len, 3) };
	let types = small_types();
	let values = small_values();
	let nops = types.len() * (values.len() + 1);

	// --- bounded-exhaustive part, parallel over the first two operations
	let roots: Vec<(usize, usize)> = (0..nops).flat_map(|a| (0..nops).map(move |b| (a, b))).collect();
	let do_exhaustive = ctx.replay.as_ref().map_or(true, |r| r.workload == "exhaustive");
	if do_exhaustive {
		// lengths 0 and 1 once
		{
			let mut d = Dfs {
				ctx,
				case: CaseId::new("exhaustive", 0, 0),
				types: types.clone(),
				values: values.clone(),
				ops: vec![],
				max_len: 1,
				cert_depth,
				key: &key,
				states: Default::default(),
				steps: 0,
				histories: 0,
			};
			d.go(&DistinguishedName::new(), &Vec::new());
			ctx.count_n("enum:exhaustive_histories", d.histories);
			ctx.count_n("steps_checked", d.steps);
			ctx.aux_many(d.states.iter().cloned());
		}
		par_for(roots.len() as u64, if cfg!(miri) { 1 } else { ctx.threads }, |i| {
			if let Some(r) = &ctx.replay {
				if r.index != i {
					return;
				}
			}
			let (a, b) = roots[i as usize];
			let mut d = Dfs {
				ctx,
				case: CaseId::new("exhaustive", 0, i),
				types: types.clone(),
				values: values.clone(),
				ops: vec![],
				max_len,
				cert_depth,
				key: &key,
				states: Default::default(),
				steps: 0,
				histories: 0,
			};
			let all = d.all_ops();
			let mut dn = DistinguishedName::new();
			let mut m: Model = Vec::new();
			for op in [all[a].clone(), all[b].clone()] {
				model_apply(&mut m, &d.types, &d.values, &op);
				real_apply(&mut dn, &d.types, &d.values, &op);
				d.ops.push(op);
			}
			// the two-step prefix itself was checked by the neighbours' walk from depth 1; check it here too
			if let Err((what, det)) = compare(&dn, &m, &d.types) {
				ctx.violation(&format!("c20:{}", what), &d.case, &ops_text(&d.ops), &det);
			}
			d.go(&dn, &m);
			ctx.count_n("enum:exhaustive_histories", d.histories);
			ctx.count_n("steps_checked", d.steps);
			ctx.aux_many(d.states.iter().cloned());
		});
		ctx.sample(|| format!("exhaustive: all histories of length <= {} over ops {{push(t,v), remove(t)}} for t in {:?}, v in {:?}", max_len, types, values));
	}

	// --- random long histories
	let types = big_types();
	let n_random = if cfg!(miri) { 3 } else { ctx.scale(10_000, 150_000) };
	let do_random = ctx.replay.as_ref().map_or(true, |r| r.workload == "random");
	if do_random {
		par_for(n_random, if cfg!(miri) { 1 } else { ctx.threads }, |i| {
			if let Some(r) = &ctx.replay {
				if r.index != i {
					return;
				}
			}
			let case = CaseId::new("random", ctx.seed, i);
			let mut rng = case.rng();
			let values: Vec<DnValue> = (0..8)
				.map(|_| {
					let k = *rng.pick(&ALL_KINDS);
					dn_value(k, &crate::spec::gen_text(&mut rng, k, 12))
				})
				.collect();
			let len = if cfg!(miri) { 12 } else { 1 + rng.below(200) as usize };
			let ntypes = 2 + rng.below(types.len() as u64 - 1) as usize;
			let mut dn = DistinguishedName::new();
			let mut m: Model = Vec::new();
			let mut ops = Vec::new();
			let mut prev: Option<(DistinguishedName, Model)> = None;
			// a second copy of the same history lives inside a CertificateParams and is written now and then
			let mut live = CertificateParams::default();
			live.distinguished_name = DistinguishedName::new();
			for _ in 0..len {
				let op = if rng.chance(3, 5) {
					Op::Push(rng.below(ntypes as u64) as usize, rng.below(values.len() as u64) as usize)
				} else {
					Op::Remove(rng.below(ntypes as u64) as usize)
				};
				let want = model_apply(&mut m, &types, &values, &op);
				let got = real_apply(&mut dn, &types, &values, &op);
				let _ = real_apply(&mut live.distinguished_name, &types, &values, &op);
				ops.push(op);
				ctx.count("steps_checked");
				if got != want {
					ctx.violation("c20:remove-result", &case, &ops_text(&ops), &format!("remove returned {:?}, model {:?}", got, want));
				}
				if let Err((what, d)) = compare(&dn, &m, &types) {
					ctx.violation(&format!("c20:{}", what), &case, &ops_text(&ops), &d);
					break;
				}
				if !cfg!(miri) && rng.chance(1, 6) {
					check_inplace(ctx, &case, &key, &live, &m, &format!("{} (written in place after step {})", ops_text(&ops), ops.len()));
				}
				if let Some((pdn, pm)) = &prev {
					if (pdn == &dn) != (pm == &m) {
						ctx.violation("c20:eq-vs-enumeration", &case, &ops_text(&ops), "equality of names differs from equality of enumerations");
					}
				}
				prev = Some((dn.clone(), m.clone()));
				ctx.aux_many([fnv64(format!("{:?}", m).as_bytes())]);
			}
			ctx.distinct(fnv64(ops_text(&ops).as_bytes()));
			ctx.count("eval:random_histories");
			check_cert(ctx, &case, &key, &dn, &m, &ops_text(&ops));
			ctx.sample(|| format!("random history #{}: {} -> {:?}", i, crate::util::clip(&ops_text(&ops), 300), m));
		});
	}
	// --- histories that START from an imported name (CA certificate or CSR read back by rcgen):
	// an imported name is the same insertion-ordered map as one built by hand
	#[cfg(not(miri))]
	if ctx.replay.as_ref().map_or(true, |r| r.workload == "imported-start") {
		// attribute types that the import maps to themselves
		let itypes: Vec<DnType> = vec![
			DnType::CountryName,
			DnType::LocalityName,
			DnType::StateOrProvinceName,
			DnType::OrganizationName,
			DnType::OrganizationalUnitName,
			DnType::CommonName,
			DnType::CustomDnType(vec![1, 2, 3, 4]),
			DnType::CustomDnType(vec![0, 9, 2342, 19200300, 100, 1, 25]),
			DnType::CustomDnType(vec![2, 999, 1]),
		];
		par_for(ctx.scale(3_000, 60_000), ctx.threads, |i| {
			let case = CaseId::new("imported-start", ctx.seed, i);
			if let Some(r) = &ctx.replay {
				if r.index != i {
					return;
				}
			}
			let mut rng = case.rng();
			let values: Vec<DnValue> = (0..6)
				.map(|_| {
					let k = *rng.pick(&ALL_KINDS);
					let mut t = crate::spec::gen_text(&mut rng, k, 10);
					if t.is_empty() {
						t.push('x');
					}
					dn_value(k, &t)
				})
				.collect();
			let mut m: Model = Vec::new();
			let mut ops = Vec::new();
			for _ in 0..1 + rng.below(5) {
				let op = Op::Push(rng.below(itypes.len() as u64) as usize, rng.below(values.len() as u64) as usize);
				model_apply(&mut m, &itypes, &values, &op);
				ops.push(op);
			}
			let via_csr = i % 2 == 1;
			let start = rebuild(&m);
			let imported = crate::guard(|| -> Result<DistinguishedName, String> {
				let mut p = CertificateParams::default();
				p.distinguished_name = start.clone();
				if via_csr {
					let csr = p.serialize_request(&key).map_err(|e| e.to_string())?;
					Ok(rcgen::CertificateSigningRequestParams::from_der(csr.der()).map_err(|e| e.to_string())?.params.distinguished_name)
				} else {
					p.is_ca = rcgen::IsCa::Ca(rcgen::BasicConstraints::Unconstrained);
					let c = p.self_signed(&key).map_err(|e| e.to_string())?;
					Ok(CertificateParams::from_ca_cert_der(c.der()).map_err(|e| e.to_string())?.distinguished_name)
				}
			});
			let hist0 = format!("{} -> {} -> import", ops_text(&ops), if via_csr { "CSR" } else { "CA certificate" });
			let mut dn = match imported {
				Ok(Ok(d)) => d,
				Ok(Err(e)) => return ctx.violation("c20:import-refused", &case, &hist0, &e),
				Err(p) => return ctx.violation("c20:import-panic", &case, &hist0, &p),
			};
			ctx.count("eval:imported_starts");
			if let Err((what, d)) = compare(&dn, &m, &itypes) {
				return ctx.violation(&format!("c20:imported:{}", what), &case, &hist0, &d);
			}
			let mut ops2 = Vec::new();
			let mut live = CertificateParams::default();
			live.distinguished_name = dn.clone();
			check_inplace(ctx, &case, &key, &live, &m, &hist0);
			for _ in 0..1 + rng.below(6) {
				let op = if rng.chance(3, 4) {
					Op::Push(rng.below(itypes.len() as u64) as usize, rng.below(values.len() as u64) as usize)
				} else {
					Op::Remove(rng.below(itypes.len() as u64) as usize)
				};
				let want = model_apply(&mut m, &itypes, &values, &op);
				let got = real_apply(&mut dn, &itypes, &values, &op);
				let _ = real_apply(&mut live.distinguished_name, &itypes, &values, &op);
				ops2.push(op);
				ctx.count("steps_checked");
				let hist = format!("{}; then {}", hist0, ops_text(&ops2));
				if got != want {
					ctx.violation("c20:remove-result", &case, &hist, &format!("remove returned {:?}, model {:?}", got, want));
				}
				if let Err((what, d)) = compare(&dn, &m, &itypes) {
					return ctx.violation(&format!("c20:{}", what), &case, &hist, &d);
				}
				// the certificate after every step: stale state shows only for some step counts
				check_cert(ctx, &case, &key, &dn, &m, &hist);
				check_inplace(ctx, &case, &key, &live, &m, &hist);
			}
			ctx.distinct(fnv64(format!("{}{}", hist0, ops_text(&ops2)).as_bytes()));
		});
	}
	let _ = Rng::new(0);
}
