//! Shared CSR workload (C07, and the CSR parts of C01, C04, C05).
#![cfg(all(feature = "crypto", feature = "ossl"))]

use rcgen::{Attribute, CertificateParams, CertificateSigningRequest, CertificateSigningRequestParams, PublicKeyData};

use crate::ctx::{par_for, CaseId, Ctx};
use crate::derx;
use crate::keys::PoolKey;
use crate::mon::certs::{check_signed, check_sig_value, check_spki_canonical, classify, prop_tag, Prop};
use crate::spec::*;
use crate::util::{hex, Rng};
use crate::x509::{self, Ext};

#[derive(Clone, Debug)]
pub struct AttrCase {
	pub oid: Vec<u64>,
	/// complete DER of the SET of values
	pub values: Vec<u8>,
}

pub struct CsrCase<'a> {
	pub id: CaseId,
	pub spec: ParamSpec,
	pub attrs: Vec<AttrCase>,
	pub key: &'a PoolKey,
	/// true when the spec sets something a CSR cannot carry: the call must fail
	pub must_refuse: bool,
	/// use serialize_request (no attributes argument) instead of serialize_request_with_attributes
	pub plain_api: bool,
}

impl<'a> CsrCase<'a> {
	pub fn text(&self) -> String {
		format!(
			"key={} must_refuse={} plain_api={} attrs={:?} spec={:?}",
			self.key.label,
			self.must_refuse,
			self.plain_api,
			self.attrs.iter().map(|a| (a.oid.clone(), hex(&a.values))).collect::<Vec<_>>(),
			self.spec
		)
	}
}

fn leak_oid(o: &[u64]) -> &'static [u64] {
	Box::leak(o.to_vec().into_boxed_slice())
}

pub enum Outcome {
	Panic(String),
	Err(String),
	Ok(CertificateSigningRequest),
}

pub fn build(case: &CsrCase<'_>) -> Outcome {
	let mut rng = case.id.rng();
	let params = case.spec.to_rcgen(Some(&mut rng));
	let attrs: Vec<Attribute> = case
		.attrs
		.iter()
		.map(|a| Attribute {
			oid: leak_oid(&a.oid),
			values: a.values.clone(),
		})
		.collect();
	let r = crate::guard(|| {
		if case.plain_api {
			params.serialize_request(&case.key.kp)
		} else {
			params.serialize_request_with_attributes(&case.key.kp, attrs)
		}
	});
	match r {
		Err(p) => Outcome::Panic(p),
		Ok(Err(e)) => Outcome::Err(e.to_string()),
		Ok(Ok(c)) => Outcome::Ok(c),
	}
}

fn sorted(mut v: Vec<String>) -> Vec<String> {
	v.sort();
	v
}

pub fn check_c07(ctx: &Ctx, case: &CsrCase<'_>, csr: &CertificateSigningRequest) {
	let txt = || case.text();
	let v = match x509::parse_csr(csr.der()) {
		Ok(v) => v,
		Err(e) => return ctx.violation("c07:undecodable", &case.id, &txt(), &e),
	};
	let s = &case.spec;
	let mut bad = |what: &str, d: String| ctx.violation(&format!("c07:{}", what), &case.id, &txt(), &d);
	if name_key(&v.subject) != name_spec_key(&s.subject) {
		bad("subject", format!("encoded {} requested {}", name_key(&v.subject), name_spec_key(&s.subject)));
	}
	if v.spki.raw != case.key.spki {
		bad("spki", format!("encoded {} key {}", hex(&v.spki.raw), hex(&case.key.spki)));
	}
	let attrs = match &v.attrs {
		Some(a) => a.clone(),
		None => {
			bad("attributes-field-missing", "the [0] attributes field is absent".into());
			Vec::new()
		},
	};
	let want_req = s.ku != 0 || !s.sans.is_empty() || !s.ekus.is_empty() || !s.custom.is_empty();
	let reqs: Vec<_> = attrs.iter().filter(|a| a.oid == x509::OID_EXT_REQ).collect();
	let caller_reqs = case.attrs.iter().filter(|a| a.oid == x509::OID_EXT_REQ).count();
	if reqs.len() != caller_reqs + want_req as usize {
		bad(
			if want_req { "extension-request-missing" } else { "extension-request-unrequested" },
			format!("{} extensionRequest attribute(s), expected {}", reqs.len(), caller_reqs + want_req as usize),
		);
	}
	// the extension request written by rcgen (the one that is not a caller attribute)
	let own: Vec<_> = reqs
		.iter()
		.filter(|a| !case.attrs.iter().any(|c| c.oid == a.oid && c.values == a.values_raw))
		.collect();
	if want_req {
		if let Some(req) = own.first() {
			match x509::parse_extension_request(&req.values_raw) {
				Err(e) => bad("extension-request-undecodable", e),
				Ok(exts) => check_requested_extensions(s, &exts, &mut bad),
			}
		} else if reqs.len() == caller_reqs + 1 {
			bad("extension-request-content", "no extensionRequest other than the caller's own attribute bytes".into());
		}
	}
	// caller attributes byte-for-byte (as a multiset)
	let mut got: Vec<String> = attrs
		.iter()
		.filter(|a| !(own.first().map_or(false, |o| o.raw == a.raw)))
		.map(|a| format!("{:?}:{}", a.oid, hex(&a.values_raw)))
		.collect();
	let mut want: Vec<String> = case.attrs.iter().map(|a| format!("{:?}:{}", a.oid, hex(&a.values))).collect();
	got.sort();
	want.sort();
	// identical attributes collapse? no: a SET OF may contain equal elements; rcgen must keep each
	if got != want {
		bad("caller-attributes", format!("encoded {:?} supplied {:?}", got, want));
	}

	// OpenSSL as second reader
	match openssl::x509::X509Req::from_der(csr.der()) {
		Err(e) => bad("openssl-rejects", format!("d2i_X509_REQ: {}", e)),
		Ok(r) => {
			ctx.count("openssl_crossreads");
			let got: Vec<Vec<u8>> = r.subject_name().entries().map(|e| e.data().as_slice().to_vec()).collect();
			let want: Vec<Vec<u8>> = s.subject.iter().map(|a| a.kind.encode(&a.text)).collect();
			if got != want {
				bad("openssl-subject", format!("OpenSSL reads {:?} requested {:?}", got, want));
			}
			match r.public_key().and_then(|k| k.public_key_to_der()) {
				Ok(d) if d == case.key.spki => {},
				Ok(d) => bad("openssl-spki", format!("OpenSSL re-encodes the key as {}", hex(&d))),
				Err(e) => bad("openssl-spki", e.to_string()),
			}
		},
	}

	// parse back, within what the parser documents as supported
	let supported = s.custom.is_empty() && s.ekus.iter().all(|e| !matches!(e, EkuSpec::Other(_))) && case.attrs.iter().all(|a| a.oid != x509::OID_EXT_REQ);
	if supported {
		ctx.count("eval:csr_parse_back");
		match crate::guard(|| CertificateSigningRequestParams::from_der(csr.der())) {
			Err(p) => bad("parse-back-panic", p),
			Ok(Err(e)) => bad(&format!("parse-back-refused:{:?}", case.key.sig), format!("rcgen refuses its own request: {}", e)),
			Ok(Ok(back)) => {
				if back.params.distinguished_name != name_to_rcgen(&s.subject) {
					bad("parse-back-subject", format!("{:?}", back.params.distinguished_name));
				}
				let got = sorted(back.params.subject_alt_names.iter().map(|x| format!("{:?}", x)).collect());
				let want = sorted(s.sans.iter().map(|x| format!("{:?}", x.to_rcgen())).collect());
				if got != want {
					bad("parse-back-san", format!("parsed {:?} requested {:?}", got, want));
				}
				if ku_mask_of(&back.params.key_usages) != s.ku {
					bad("parse-back-ku", format!("parsed {:#b} requested {:#b}", ku_mask_of(&back.params.key_usages), s.ku));
				}
				let mut got = sorted(back.params.extended_key_usages.iter().map(|x| format!("{:?}", x)).collect());
				let mut want = sorted(s.ekus.iter().map(|x| format!("{:?}", x.to_rcgen())).collect());
				got.dedup();
				want.dedup();
				if got != want {
					bad("parse-back-eku", format!("parsed {:?} requested {:?}", got, want));
				}
				if back.public_key.der_bytes() != case.key.kp.der_bytes() {
					bad("parse-back-public-key", "public key bytes differ".into());
				}
				if back.public_key.algorithm() != case.key.kp.algorithm() {
					bad(
						"parse-back-algorithm",
						format!("parsed {:?} key {:?}", back.public_key.algorithm(), case.key.kp.algorithm()),
					);
				}
				// second trip: a request written from the parsed parameters parses to the same parameters
				let p2 = back.params.clone();
				match crate::guard(|| p2.serialize_request(&case.key.kp).and_then(|c| CertificateSigningRequestParams::from_der(c.der()))) {
					Ok(Ok(back2)) => {
						ctx.count("eval:csr_second_trip");
						if back2.params != back.params {
							bad("parse-back-second-trip", format!("first {:?}\nsecond {:?}", back.params, back2.params));
						}
					},
					Ok(Err(e)) => bad("parse-back-second-trip-refused", e.to_string()),
					Err(p) => bad("parse-back-panic", p),
				}
			},
		}
	}
}

fn check_requested_extensions(s: &ParamSpec, exts: &[Ext], bad: &mut dyn FnMut(&str, String)) {
	let mut accounted: Vec<Vec<u64>> = Vec::new();
	let get = |oid: &[u64]| -> Vec<&Ext> { exts.iter().filter(|e| e.oid == oid).collect() };
	for (oid, want, what) in [
		(x509::OID_KU, s.ku != 0, "ku"),
		(x509::OID_SAN, !s.sans.is_empty(), "san"),
		(x509::OID_EKU, !s.ekus.is_empty(), "eku"),
	] {
		accounted.push(oid.to_vec());
		let f = get(oid);
		if f.len() != want as usize {
			bad(&format!("req-{}-presence", what), format!("{} occurrence(s), requested={}", f.len(), want));
		}
	}
	if let Some(e) = get(x509::OID_KU).first() {
		match x509::parse_ku(&e.value) {
			Ok(m) if m == s.ku => {},
			Ok(m) => bad("req-ku-content", format!("encoded {:#b} requested {:#b}", m, s.ku)),
			Err(_) => {}, // non-canonical form: C04's finding
		}
	}
	if let Some(e) = get(x509::OID_SAN).first() {
		match x509::parse_san(&e.value) {
			Err(m) => bad("req-san-undecodable", m),
			Ok(n) => {
				let got = sorted(n.iter().map(gn_key).collect());
				let want = sorted(s.sans.iter().map(|x| x.key()).collect());
				if got != want {
					bad("req-san-content", format!("encoded {:?} requested {:?}", got, want));
				}
			},
		}
	}
	if let Some(e) = get(x509::OID_EKU).first() {
		match x509::parse_eku(&e.value) {
			Err(m) => bad("req-eku-undecodable", m),
			Ok(o) => {
				let got = sorted(o.iter().map(|x| format!("{:?}", x)).collect());
				let want = sorted(s.ekus.iter().map(|x| format!("{:?}", x.oid())).collect());
				if got != want {
					bad("req-eku-content", format!("encoded {:?} requested {:?}", got, want));
				}
			},
		}
	}
	for c in &s.custom {
		accounted.push(c.oid.clone());
		let f = get(&c.oid);
		if f.len() != 1 {
			bad("req-custom-count", format!("custom extension {:?} occurs {} times", c.oid, f.len()));
		} else if f[0].value != c.content || f[0].critical != c.critical {
			bad(
				"req-custom-content",
				format!("{:?}: encoded {} critical={} requested {} critical={}", c.oid, hex(&f[0].value), f[0].critical, hex(&c.content), c.critical),
			);
		}
	}
	for e in exts {
		if !accounted.contains(&e.oid) {
			bad("req-unrequested-extension", format!("{:?}", e.oid));
		}
	}
}

pub fn check_c04(ctx: &Ctx, case: &CsrCase<'_>, csr: &CertificateSigningRequest) {
	let txt = case.text();
	let mut errs = Vec::new();
	derx::check_canonical(csr.der(), "csr", &mut errs);
	match x509::parse_csr(csr.der()) {
		Err(e) => errs.push(format!("schema: {}", e)),
		Ok(v) => {
			for a in v.attrs.iter().flatten() {
				if a.oid == x509::OID_EXT_REQ && !case.attrs.iter().any(|c| c.values == a.values_raw) {
					match x509::parse_extension_request(&a.values_raw) {
						Err(e) => errs.push(format!("extensionRequest: {}", e)),
						Ok(exts) => {
							for e in &exts {
								x509::check_known_extension(e, &mut errs, &format!("req-ext{:?}", e.oid));
							}
						},
					}
				}
			}
			for c in &case.attrs {
				if !v.attrs.iter().flatten().any(|a| a.oid == c.oid && a.values_raw == c.values) {
					errs.push(format!("attribute {:?} value not embedded byte-for-byte", c.oid));
				}
			}
			check_sig_value(case.key.sig, &v.sig, &mut errs);
			check_spki_canonical(&v.spki, &mut errs);
		},
	}
	ctx.count("eval:c04_csrs_walked");
	for e in errs {
		// a caller-supplied attribute value that is itself not DER is the caller's business
		if e.starts_with("csr/") && case.attrs.iter().any(|a| !value_is_der(&a.values)) {
			continue;
		}
		ctx.violation(&format!("c04:csr:{}", classify(&e)), &case.id, &txt, &e);
	}
}

fn value_is_der(v: &[u8]) -> bool {
	let mut e = Vec::new();
	derx::check_canonical(v, "v", &mut e);
	e.is_empty()
}

pub fn check_c05(ctx: &Ctx, case: &CsrCase<'_>, csr: &CertificateSigningRequest) {
	let txt = || case.text();
	ctx.count("eval:c05_csrs");
	match x509::parse_csr(csr.der()) {
		Err(e) => ctx.violation("c05:csr-undecodable", &case.id, &txt(), &e),
		Ok(v) => {
			if v.version != 0 {
				ctx.violation("c05:csr-version", &case.id, &txt(), &format!("version {}", v.version));
			}
			match &v.attrs {
				None => ctx.violation("c05:csr-attributes-missing", &case.id, &txt(), "attributes [0] absent"),
				Some(a) => {
					let own = a
						.iter()
						.filter(|x| x.oid == x509::OID_EXT_REQ && !case.attrs.iter().any(|c| c.oid == x.oid && c.values == x.values_raw))
						.count();
					if own > 1 {
						ctx.violation("c05:csr-multiple-extension-requests", &case.id, &txt(), &format!("{} extension requests", own));
					}
				},
			}
		},
	}
}

pub fn check_c01(ctx: &Ctx, case: &CsrCase<'_>, csr: &CertificateSigningRequest, log_before: usize) {
	check_signed(ctx, &case.id, &case.text(), "csr", csr.der(), case.key, log_before, |der| {
		x509::parse_csr(der).map(|v| v.outer_alg_raw)
	});
	if let (Ok(r), Ok(pk)) = (
		openssl::x509::X509Req::from_der(csr.der()),
		openssl::pkey::PKey::public_key_from_der(&case.key.spki),
	) {
		ctx.count("openssl_req_verify");
		if !r.verify(&pk).unwrap_or(false) {
			ctx.violation("c01:csr:openssl-req-verify", &case.id, &case.text(), "X509_REQ_verify rejects the request under the requester's key");
		}
	}
}

pub fn gen_attr(rng: &mut Rng) -> AttrCase {
	let oid = loop {
		let o = gen_oid(rng);
		if o != x509::OID_EXT_REQ {
			break o;
		}
	};
	// a SET with 1..3 DER values (sorted, as a DER SET OF must be) or a well-known shape
	let mut vals: Vec<Vec<u8>> = (0..1 + rng.below(3)).map(|_| gen_der_value(rng)).collect();
	vals.sort();
	let body: Vec<u8> = vals.concat();
	let mut v = vec![0x31];
	v.extend(der_len(body.len()));
	v.extend(body);
	AttrCase { oid, values: v }
}

pub fn gen_case<'a>(pool: &'a [PoolKey], workload: &str, seed: u64, index: u64) -> Option<CsrCase<'a>> {
	let id = CaseId::new(workload, seed, index);
	let mut rng = id.rng();
	let mut spec = ParamSpec::minimal();
	let mut attrs = Vec::new();
	let mut must_refuse = false;
	let mut plain_api = false;
	let mut key = rng.pick(pool);
	match workload {
		"lattice" => {
			if index >= 16 * 4 {
				return None;
			}
			let b = index % 16;
			let pr = Presence {
				ku: b & 1 != 0,
				san: b & 2 != 0,
				eku: b & 4 != 0,
				custom: b & 8 != 0,
				..Default::default()
			};
			fill_presence(&mut rng, &mut spec, pr);
			spec.nc = None;
			let n = index / 16;
			attrs = (0..n).map(|_| gen_attr(&mut rng)).collect();
			plain_api = n == 0 && index % 2 == 0;
		},
		"refusal" => {
			if index >= 31 * 4 {
				return None;
			}
			let b = 1 + index % 31;
			if b & 1 != 0 {
				spec.serial = Some(gen_serial(&mut rng));
			}
			if b & 2 != 0 {
				spec.is_ca = match index / 31 {
					0 => IsCaSpec::ExplicitNo,
					1 => IsCaSpec::Ca(None),
					2 => IsCaSpec::Ca(Some(0)),
					_ => IsCaSpec::Ca(Some(rng.below(256) as u8)),
				};
			}
			if b & 4 != 0 {
				spec.nc = Some((vec![gen_subtree(&mut rng)], vec![]));
			}
			if b & 8 != 0 {
				spec.crldp = vec![vec![format!("http://{}/x.crl", gen_host(&mut rng))]];
				// present-but-empty shapes: a distribution point that names no URI, alone or next to one that does
				match index / 31 {
					1 => spec.crldp = vec![vec![]],
					3 => spec.crldp.insert(rng.below(2) as usize, vec![]),
					_ => {},
				}
			}
			if b & 16 != 0 {
				spec.use_aki = true;
			}
			if index / 31 >= 2 {
				// otherwise valid, content-bearing parameters
				let keep = (spec.nc.clone(), spec.crldp.clone(), spec.use_aki);
				fill_presence(&mut rng, &mut spec, Presence { ku: true, san: true, ..Default::default() });
				spec.nc = keep.0;
				spec.crldp = keep.1;
				spec.use_aki = keep.2;
			}
			must_refuse = true;
		},
		"ku" => {
			if index >= 512 {
				return None;
			}
			spec.ku = index as u16;
		},
		"attrs" => {
			// every permutation of 4 attributes (24), with duplicate OIDs / duplicate whole attributes mixed in
			if index >= 24 * 3 {
				return None;
			}
			let mut base_rng = Rng::derive(seed, "attrs-base", index / 24);
			let mut base: Vec<AttrCase> = (0..4).map(|_| gen_attr(&mut base_rng)).collect();
			if index / 24 >= 1 {
				base[1].oid = base[0].oid.clone();
			}
			if index / 24 == 2 {
				base[2] = base[0].clone();
			}
			let mut perm: Vec<usize> = vec![0, 1, 2, 3];
			let mut k = index % 24;
			let mut out = Vec::new();
			for f in [6u64, 2, 1, 1] {
				let i = (k / f) as usize;
				k %= f;
				out.push(perm.remove(i.min(perm.len() - 1)));
			}
			attrs = out.into_iter().map(|i| base[i].clone()).collect();
			if index % 2 == 0 {
				spec.sans = vec![gen_san(&mut rng)];
			}
		},
		// the caller passes an attribute that itself uses the extensionRequest OID, next to requested extensions
		"caller-extreq" => {
			if index >= 8 {
				return None;
			}
			fill_presence(&mut rng, &mut spec, Presence { ku: index & 1 != 0, san: index & 2 != 0, eku: index & 4 != 0, ..Default::default() });
			spec.nc = None;
			spec.ekus.retain(|e| !matches!(e, EkuSpec::Other(_)));
			// a syntactically valid extension request of the caller's own: one unknown extension
			let inner = vec![0x31, 0x0f, 0x30, 0x0d, 0x30, 0x0b, 0x06, 0x03, 0x2a, 0x03, 0x04, 0x04, 0x04, 0x04, 0x02, 0x05, 0x00];
			attrs = vec![AttrCase { oid: x509::OID_EXT_REQ.to_vec(), values: inner }];
			if index >= 4 {
				attrs.push(gen_attr(&mut rng));
			}
		},
		// requests beyond 64 KiB
		"huge" => {
			if index >= 2 {
				return None;
			}
			spec.sans = (0..2800 + index * 1300).map(|i| SanSpec::Dns(format!("host-{:06}.example.com", i))).collect();
		},
		"keys" => {
			if index >= pool.len() as u64 {
				return None;
			}
			key = &pool[index as usize];
			fill_presence(&mut rng, &mut spec, Presence { ku: true, san: true, eku: index % 2 == 0, ..Default::default() });
			spec.nc = None;
			spec.ekus.retain(|e| !matches!(e, EkuSpec::Other(_)));
		},
		"random" => {
			spec.subject = gen_name(&mut rng, 8);
			let b = rng.below(16);
			let with_custom = b & 8 != 0 && rng.chance(1, 2);
			fill_presence(
				&mut rng,
				&mut spec,
				Presence {
					ku: b & 1 != 0,
					san: b & 2 != 0,
					eku: b & 4 != 0,
					custom: with_custom,
					..Default::default()
				},
			);
			spec.nc = None;
			attrs = (0..rng.below(7)).map(|_| gen_attr(&mut rng)).collect();
			spec.not_before = gen_time(&mut rng);
			spec.kid = gen_kid(&mut rng);
			if rng.chance(1, 12) {
				spec.use_aki = true;
				must_refuse = true;
			}
		},
		_ => return None,
	}
	Some(CsrCase {
		id,
		spec,
		attrs,
		key,
		must_refuse,
		plain_api,
	})
}

pub const WORKLOADS: [&str; 8] = ["lattice", "refusal", "ku", "attrs", "caller-extreq", "huge", "keys", "random"];

pub fn run(ctx: &Ctx, prop: Prop, pool: &[PoolKey], n_random: u64) {
	for wl in WORKLOADS {
		if let Some(r) = &ctx.replay {
			if r.workload != format!("csr-{}", wl) {
				continue;
			}
		}
		let name = format!("csr-{}", wl);
		let count = (0..if wl == "random" { n_random } else { 100_000 })
			.take_while(|i| wl == "random" || gen_case(pool, &name[4..], ctx.seed, *i).is_some())
			.count() as u64;
		let serial: std::sync::Mutex<()> = std::sync::Mutex::new(());
		par_for(count, ctx.threads, |i| {
			if let Some(r) = &ctx.replay {
				if r.index != i {
					return;
				}
			}
			let mut case = match gen_case(pool, wl, ctx.seed, i) {
				Some(c) => c,
				None => return,
			};
			case.id.workload = name.clone();
			let _g = if case.key.is_remote() { Some(serial.lock().unwrap()) } else { None };
			let log_before = case.key.remote_log.as_ref().map_or(0, |l| l.lock().unwrap().msgs.len());
			let out = build(&case);
			ctx.count(&format!("eval:csr:{}", wl));
			if wl == "random" {
				ctx.distinct(crate::util::fnv64(case.text().as_bytes()));
			} else {
				ctx.count(&format!("dist:csr-{}", wl));
			}
			ctx.sample(|| format!("{}#{}: {}", name, i, crate::util::clip(&case.text(), 600)));
			let tag = prop_tag(prop);
			match out {
				Outcome::Panic(p) => ctx.violation(&format!("{}:csr-panic", tag), &case.id, &case.text(), &p),
				Outcome::Err(e) => {
					if !case.must_refuse {
						ctx.violation(&format!("{}:csr-refused", tag), &case.id, &case.text(), &format!("expressible parameters were refused: {}", e));
					} else {
						ctx.count("eval:csr_refusals_observed");
					}
				},
				Outcome::Ok(csr) => {
					if case.must_refuse {
						match prop {
							Prop::C07 => ctx.violation("c07:unsupported-field-not-refused", &case.id, &case.text(), "a CSR was produced although the parameters set a field a CSR cannot carry"),
							// whatever was produced is output: its signature, encoding and structure are judged all the same
							Prop::C01 => check_c01(ctx, &case, &csr, log_before),
							Prop::C04 => check_c04(ctx, &case, &csr),
							Prop::C05 => check_c05(ctx, &case, &csr),
							Prop::C02 | Prop::C08 => {},
						}
						return;
					}
					match prop {
						Prop::C01 => check_c01(ctx, &case, &csr, log_before),
						Prop::C07 => check_c07(ctx, &case, &csr),
						Prop::C02 | Prop::C08 => {},
						Prop::C04 => check_c04(ctx, &case, &csr),
						Prop::C05 => check_c05(ctx, &case, &csr),
					}
				},
			}
		});
	}
}
