//! C03 (issued certificates chain to their issuer, including imported CAs) and
//! C17 (importing a CA certificate recovers the fields it claims to recover).
#![cfg(all(feature = "crypto", feature = "ossl"))]

use openssl::asn1::{Asn1Time, Asn1Type};
use openssl::hash::MessageDigest;
use openssl::pkey::{PKey, Private};
use openssl::x509::extension::{BasicConstraints, ExtendedKeyUsage, KeyUsage, SubjectAlternativeName, SubjectKeyIdentifier};
use openssl::x509::{X509Builder, X509NameBuilder};
use pki_types::CertificateDer;
use rcgen::{BasicConstraints as RBc, Certificate, CertificateParams, CidrSubnet, GeneralSubtree, IsCa, KeyIdMethod};

use crate::ctx::{par_for, CaseId, Ctx};
use crate::keys::PoolKey;
use crate::ossl::{self, SigAlg, VerifyOpts};
use crate::spec::*;
use crate::util::{hex, Rng};
use crate::x509::{self, CertView};

fn null_md() -> MessageDigest {
	// EdDSA signing wants a NULL EVP_MD
	unsafe { MessageDigest::from_ptr(std::ptr::null()) }
}

/// What an OpenSSL-made CA was asked to contain
#[derive(Clone, Debug)]
pub struct OsslCa {
	pub der: Vec<u8>,
	pub subject: Vec<(String, String, String)>,
	pub repeated_types: bool,
	/// the subject uses an attribute type rcgen cannot represent (an arc >= 2^64)
	pub huge_arc: bool,
	pub multi_valued: bool,
	pub ski: bool,
	pub pathlen: Option<u32>,
	pub ku: u16,
	pub ekus: Vec<EkuSpec>,
	pub sans: Vec<SanSpec>,
	pub not_before: i64,
	pub not_after: i64,
	pub serial: Vec<u8>,
	pub digest: String,
}

const FIELDS: [&str; 11] = [
	"C",
	"ST",
	"L",
	"O",
	"OU",
	"CN",
	"DC",
	"1.2.3.4.5",
	// arcs that do not fit 64 bits (UUID-based OIDs are real): rcgen may refuse the import, it must not alter the name
	"2.25.329800735698586629295641978511506172918",
	"2.999.18446744073709551616",
	"2.999.18446744073709551615",
];

pub fn make_ossl_ca(rng: &mut Rng, key: &PoolKey) -> Result<OsslCa, String> {
	make_ossl_ca_with(rng, key, &[])
}

/// Like `make_ossl_ca`; a non-empty `forced` list replaces the generated subject by exactly these
/// (field, string type, text) entries. OpenSSL copies the text into the chosen type unchecked,
/// which is how foreign certificates with out-of-alphabet strings come about.
pub fn make_ossl_ca_with(rng: &mut Rng, key: &PoolKey, forced: &[(&str, Asn1Type, &str)]) -> Result<OsslCa, String> {
	let e = |x: openssl::error::ErrorStack| x.to_string();
	let pkey: PKey<Private> = ossl::load_private(&key.der)?;
	let mut nb = X509NameBuilder::new().map_err(e)?;
	let mut subject = Vec::new();
	let n = 1 + rng.below(6);
	let mut used: Vec<&str> = Vec::new();
	let repeated = rng.chance(1, 3);
	for (f, ty, text) in forced {
		nb.append_entry_by_text_with_type(f, text, *ty).map_err(e)?;
		subject.push((f.to_string(), "forced".to_string(), text.to_string()));
	}
	for _ in 0..if forced.is_empty() { n } else { 0 } {
		let f = loop {
			// the three attribute types with arcs beyond 64 bits are refused at import: keep them rare
			let f = if rng.chance(9, 10) { *rng.pick(&FIELDS[..8]) } else { *rng.pick(&FIELDS[8..]) };
			if repeated || !used.contains(&f) {
				break f;
			}
			if used.len() == FIELDS.len() {
				break f;
			}
		};
		used.push(f);
		let (ty, tyname) = match rng.below(6) {
			0 => (Asn1Type::PRINTABLESTRING, "printable"),
			1 => (Asn1Type::IA5STRING, "ia5"),
			2 => (Asn1Type::T61STRING, "t61"),
			3 => (Asn1Type::BMPSTRING, "bmp"),
			_ => (Asn1Type::UTF8STRING, "utf8"),
		};
		let text = if f == "C" {
			"DE".to_string()
		} else {
			match tyname {
				"utf8" => gen_text(rng, StrKind::Utf8, 12).replace('\0', "x"),
				// octets >= 0x80 in a T61String (OpenSSL copies them unchecked): rcgen may refuse the import, it must not re-interpret the name
				"t61" if rng.chance(1, 3) => format!("{}\u{e9}", gen_host(rng)),
				// characters outside the alphabet of the chosen type (other tools do not check): same rule
				"printable" if rng.chance(1, 3) => format!("{}{}{}", gen_host(rng), rng.pick(&["&", "@", "_", "*", "\u{e9}"]), gen_host(rng)),
				"ia5" if rng.chance(1, 4) => format!("{}\u{fc}", gen_host(rng)),
				_ => gen_host(rng),
			}
		};
		let raw: String = if tyname == "bmp" { text.chars().flat_map(|c| ['\0', c]).collect() } else { text.clone() };
		nb.append_entry_by_text_with_type(f, &raw, ty).map_err(e)?;
		subject.push((f.to_string(), tyname.to_string(), text));
	}
	let name = nb.build();
	let repeated_types = {
		let mut s: Vec<&String> = subject.iter().map(|x| &x.0).collect();
		s.sort();
		s.windows(2).any(|w| w[0] == w[1])
	};
	let mut b = X509Builder::new().map_err(e)?;
	b.set_version(2).map_err(e)?;
	let serial = {
		let n = 1 + rng.below(19) as usize;
		let mut s = rng.bytes(n);
		s[0] &= 0x7f;
		if s.iter().all(|x| *x == 0) {
			s[0] = 1;
		}
		s
	};
	let bn = openssl::bn::BigNum::from_slice(&serial).map_err(e)?;
	let ai = bn.to_asn1_integer().map_err(e)?;
	b.set_serial_number(&ai).map_err(e)?;
	b.set_subject_name(&name).map_err(e)?;
	b.set_issuer_name(&name).map_err(e)?;
	b.set_pubkey(&pkey).map_err(e)?;
	let not_before = 1_600_000_000 + rng.range(0, 1_000_000);
	let not_after = not_before + 1_000_000_000;
	let nbt = Asn1Time::from_unix(not_before as _).map_err(e)?;
	b.set_not_before(&nbt).map_err(e)?;
	let nat = Asn1Time::from_unix(not_after as _).map_err(e)?;
	b.set_not_after(&nat).map_err(e)?;
	let pathlen = if rng.chance(1, 2) { Some(rng.below(4) as u32) } else { None };
	let mut bc = BasicConstraints::new();
	bc.critical().ca();
	if let Some(p) = pathlen {
		bc.pathlen(p);
	}
	// extensions are appended in a random order (rcgen writes KeyUsage before the key identifier, other tools do not)
	let mut exts: Vec<openssl::x509::X509Extension> = vec![bc.build().map_err(e)?];
	let no_crl_sign = rng.chance(1, 4);
	let ku: u16 = if rng.chance(2, 3) { (if no_crl_sign { 0b0010_0001 } else { 0b0110_0001 }) | (rng.below(2) as u16) << 2 } else { 0 };
	if ku != 0 {
		let mut k = KeyUsage::new();
		k.critical().digital_signature().key_cert_sign();
		if !no_crl_sign {
			k.crl_sign();
		}
		if ku & 4 != 0 {
			k.key_encipherment();
		}
		exts.push(k.build().map_err(e)?);
	}
	let mut ekus = Vec::new();
	if rng.chance(1, 3) {
		let mut x = ExtendedKeyUsage::new();
		x.server_auth();
		ekus.push(EkuSpec::ServerAuth);
		if rng.chance(1, 2) {
			x.client_auth();
			ekus.push(EkuSpec::ClientAuth);
		}
		exts.push(x.build().map_err(e)?);
	}
	let ski = rng.chance(2, 3);
	if ski {
		let ext = SubjectKeyIdentifier::new().build(&b.x509v3_context(None, None)).map_err(e)?;
		exts.push(ext);
	}
	let mut sans = Vec::new();
	if rng.chance(1, 3) {
		let mut s = SubjectAlternativeName::new();
		// now and then a dNSName with non-ASCII (but valid UTF-8) octets, which OpenSSL writes unchecked
		let h = if rng.chance(1, 5) { format!("m\u{fc}nchen.{}", gen_host(rng)) } else { gen_host(rng) };
		s.dns(&h);
		sans.push(SanSpec::Dns(h));
		if rng.chance(1, 2) {
			s.ip("10.1.2.3");
			sans.push(SanSpec::Ip("10.1.2.3".parse().unwrap()));
		}
		let ext = s.build(&b.x509v3_context(None, None)).map_err(e)?;
		exts.push(ext);
	}
	rng.shuffle(&mut exts);
	for x in exts {
		b.append_extension(x).map_err(e)?;
	}
	let (md, digest) = match key.sig {
		SigAlg::Ed25519 => (null_md(), "none"),
		SigAlg::EcdsaSha384 | SigAlg::RsaSha384 => (MessageDigest::sha384(), "sha384"),
		SigAlg::EcdsaSha512 | SigAlg::RsaSha512 => (MessageDigest::sha512(), "sha512"),
		_ => (MessageDigest::sha256(), "sha256"),
	};
	b.sign(&pkey, md).map_err(e)?;
	let der = b.build().to_der().map_err(e)?;
	// "rcgen may refuse this import": arcs that do not fit 64 bits, non-ASCII octets in a T61String
	let huge_arc = subject.iter().any(|x| {
		x.0.starts_with("2.25.")
			|| x.0.ends_with("51616")
			|| (matches!(x.1.as_str(), "t61" | "ia5") && !x.2.is_ascii())
			|| (x.1 == "printable" && !x.2.bytes().all(crate::derx::is_printable_char))
	}) || sans.iter().any(|s| matches!(s, SanSpec::Dns(h) if !h.is_ascii()));
	Ok(OsslCa {
		der,
		subject,
		repeated_types,
		huge_arc,
		multi_valued: false,
		ski,
		pathlen,
		ku,
		ekus,
		sans,
		not_before,
		not_after,
		serial,
		digest: digest.to_string(),
	})
}

/// A CA with a multi-valued RDN made by the OpenSSL command line tool (the crate cannot build one).
pub fn make_cli_multivalued_ca(dir: &std::path::Path, key: &PoolKey, idx: u64) -> Result<OsslCa, String> {
	let keyfile = dir.join(format!("k{}.der", idx));
	std::fs::write(&keyfile, &key.der).map_err(|e| e.to_string())?;
	let out = dir.join(format!("c{}.der", idx));
	let subj = ["/C=DE/O=Example Org/OU=PKI+CN=Multi RDN CA", "/CN=a+OU=b", "/DC=com+DC=example/CN=x"][(idx % 3) as usize];
	let st = std::process::Command::new("openssl")
		.args(["req", "-x509", "-new", "-key"])
		.arg(&keyfile)
		.args(["-keyform", "DER", "-subj", subj, "-days", "36500", "-outform", "DER", "-out"])
		.arg(&out)
		.args(["-addext", "basicConstraints=critical,CA:TRUE"])
		.output()
		.map_err(|e| e.to_string())?;
	if !st.status.success() {
		return Err(format!("openssl req failed: {}", String::from_utf8_lossy(&st.stderr)));
	}
	let der = std::fs::read(&out).map_err(|e| e.to_string())?;
	Ok(OsslCa {
		der,
		subject: vec![],
		repeated_types: false,
		huge_arc: false,
		multi_valued: true,
		ski: true,
		pathlen: None,
		ku: 0,
		ekus: vec![],
		sans: vec![],
		not_before: 0,
		not_after: 0,
		serial: vec![],
		digest: "default".into(),
	})
}

/// the time at which both certificates are valid (or None)
fn common_time(a: &CertView, b: &CertView) -> Option<i64> {
	let lo = a.not_before.unix.max(b.not_before.unix);
	let hi = a.not_after.unix.min(b.not_after.unix);
	if lo <= hi {
		Some(lo + (hi - lo) / 2)
	} else {
		None
	}
}

fn ext_value<'a>(v: &'a CertView, oid: &[u64]) -> Option<&'a [u8]> {
	v.exts.as_ref()?.iter().find(|e| e.oid == oid).map(|e| e.value.as_slice())
}

/// The C03 guarantees for one (issuer certificate as trusted, leaf) pair.
/// `trusted_der` is the certificate the relying party has (for imports: the ORIGINAL CA).
#[allow(clippy::too_many_arguments)]
pub fn check_chain(
	ctx: &Ctx,
	case: &CaseId,
	text: &str,
	trusted_der: &[u8],
	leaf: &Certificate,
	aki_requested: bool,
	issuer_sig: SigAlg,
	leaf_key_sig: SigAlg,
	tag: &str,
) {
	check_chain_via(ctx, case, text, trusted_der, None, leaf, aki_requested, issuer_sig, leaf_key_sig, tag)
}

/// as `check_chain`; with `root` the issuer certificate is an untrusted intermediate below that trusted root
#[allow(clippy::too_many_arguments)]
pub fn check_chain_via(
	ctx: &Ctx,
	case: &CaseId,
	text: &str,
	trusted_der: &[u8],
	root: Option<&[u8]>,
	leaf: &Certificate,
	aki_requested: bool,
	issuer_sig: SigAlg,
	leaf_key_sig: SigAlg,
	tag: &str,
) {
	let tv = match x509::parse_certificate(trusted_der) {
		Ok(v) => v,
		Err(_) => match lenient_subject_and_ski(trusted_der) {
			Some(v) => v,
			None => return ctx.inconclusive(&format!("issuer certificate not decodable by the oracle in {}", tag)),
		},
	};
	let lv = match x509::parse_certificate(leaf.der()) {
		Ok(v) => v,
		Err(e) => return ctx.violation(&format!("c03:{}:leaf-undecodable", tag), case, text, &e),
	};
	ctx.count(&format!("eval:chain:{}", tag));
	if lv.issuer.raw != tv.subject.raw {
		ctx.violation(
			&format!("c03:{}:issuer-name-bytes", tag),
			case,
			text,
			&format!("leaf issuer {} != issuer certificate subject {}", hex(&lv.issuer.raw), hex(&tv.subject.raw)),
		);
	}
	let aki = ext_value(&lv, x509::OID_AKI).map(|v| x509::parse_aki(v));
	let ski = ext_value(&tv, x509::OID_SKI).map(|v| x509::parse_ski(v));
	if aki_requested {
		match (&aki, &ski) {
			(None, _) => ctx.violation(&format!("c03:{}:aki-missing", tag), case, text, "authority key identifier requested but absent"),
			(Some(Ok(a)), Some(Ok(s))) => {
				if a != s {
					ctx.violation(
						&format!("c03:{}:aki-ne-ski", tag),
						case,
						text,
						&format!("leaf AKI {} != issuer certificate SKI {}", hex(a), hex(s)),
					);
				}
			},
			(Some(Err(e)), _) => ctx.violation(&format!("c03:{}:aki-undecodable", tag), case, text, e),
			_ => {},
		}
	}
	// path validators, when the issuer is a CA, the issuer name is not empty and a common time exists
	let issuer_is_ca = ext_value(&tv, x509::OID_BC).map_or(false, |v| x509::parse_bc(v).map_or(false, |b| b.0));
	let ku_allows = ext_value(&tv, x509::OID_KU).map_or(true, |v| x509::parse_ku(v).map_or(true, |m| m & (1 << 5) != 0));
	if !issuer_is_ca || !ku_allows || tv.subject.rdns.is_empty() {
		ctx.count("validators_skipped_not_applicable");
		return;
	}
	let at = match common_time(&tv, &lv) {
		Some(t) => t,
		None => {
			ctx.count("validators_skipped_no_common_time");
			return;
		},
	};
	// OpenSSL cannot express verification times outside time_t comfortably for year < 1970 via set_time? it can (time_t is i64)
	let (inter, trust): (Vec<Vec<u8>>, Vec<Vec<u8>>) = match root {
		Some(r) => (vec![trusted_der.to_vec()], vec![r.to_vec()]),
		None => (vec![], vec![trusted_der.to_vec()]),
	};
	// OpenSSL compares names after canonicalisation (string type and case are ignored). A leaf whose own subject
	// is the same name as its issuer's under that comparison (e.g. L="" as T61String vs L="" as UniversalString)
	// looks self-issued to OpenSSL, which then reports "self-signed certificate": not a statement about rcgen.
	let looks_self_issued = openssl::x509::X509::from_der(leaf.der())
		.ok()
		.map_or(false, |x| x.subject_name().try_cmp(x.issuer_name()).map_or(false, |o| o == std::cmp::Ordering::Equal));
	if looks_self_issued && lv.subject.raw != lv.issuer.raw {
		ctx.count("openssl_skipped_leaf_subject_equals_issuer_after_canonicalisation");
	} else {
	match ossl::openssl_verify(leaf.der(), &inter, &trust, &VerifyOpts::at(at)) {
		Err(e) => ctx.note(format!("openssl verify harness error: {}", e)),
		Ok(Ok(())) => ctx.count("eval:openssl_chain_accepted"),
		Ok(Err(why)) => ctx.violation(
			&format!("c03:{}:openssl-rejects-chain", tag),
			case,
			text,
			&format!("X509_verify_cert at {}: {}", at, why),
		),
	}
	}
	if ossl::webpki_supports(issuer_sig) && ossl::webpki_supports(leaf_key_sig) && at >= 0 {
		let leaf_is_ca = ext_value(&lv, x509::OID_BC).map_or(false, |v| x509::parse_bc(v).map_or(false, |b| b.0));
		let leaf_eku_ok = ext_value(&lv, x509::OID_EKU).map_or(true, |v| {
			x509::parse_eku(v).map_or(false, |o| o.iter().any(|x| x == &[1, 3, 6, 1, 5, 5, 7, 3, 1]))
		});
		let has_nc = ext_value(&tv, x509::OID_NC).is_some();
		let unknown_critical = lv.exts.iter().flatten().any(|e| e.critical && !known_to_webpki(&e.oid));
		if !leaf_is_ca && leaf_eku_ok && !has_nc && !unknown_critical {
			match ossl::webpki_verify(leaf.der(), &inter, &trust, at, 0) {
				Err(e) => ctx.note(format!("webpki harness error: {}", e)),
				Ok(Ok(())) => ctx.count("eval:webpki_chain_accepted"),
				Ok(Err(why)) => ctx.violation(&format!("c03:{}:webpki-rejects-chain", tag), case, text, &format!("webpki at {}: {}", at, why)),
			}
		}
	}
}

fn known_to_webpki(oid: &[u64]) -> bool {
	[x509::OID_BC, x509::OID_KU, x509::OID_EKU, x509::OID_SAN, x509::OID_NC, x509::OID_CRLDP]
		.iter()
		.any(|o| *o == oid)
}

/// OpenSSL-made certificates can contain things derx is too strict for; take what C03 needs
fn lenient_subject_and_ski(der: &[u8]) -> Option<CertView> {
	x509::parse_certificate_foreign(der).ok()
}

pub struct Env<'a> {
	pub pool: &'a [PoolKey],
}

fn local_keys<'a>(pool: &'a [PoolKey]) -> Vec<&'a PoolKey> {
	pool.iter().filter(|k| !k.is_remote()).collect()
}

pub fn run_c03(ctx: &Ctx, pool: &[PoolKey]) {
	let locals = local_keys(pool);
	let tmp = ctx.out_dir.join("tmp");
	let _ = std::fs::create_dir_all(&tmp);

	// --- (a) issuers generated by rcgen: names of every shape, 4x4 key-id methods, every key on either side
	let n_a = ctx.scale(3_000, 60_000);
	if ctx.replay.as_ref().map_or(true, |r| r.workload == "rcgen-issuer") {
		par_for(n_a, ctx.threads, |i| {
			if let Some(r) = &ctx.replay {
				if r.index != i {
					return;
				}
			}
			let case = CaseId::new("rcgen-issuer", ctx.seed, i);
			let mut rng = case.rng();
			let ik = &pool[(i % pool.len() as u64) as usize];
			let lk = rng.pick(pool);
			let kids = [KidSpec::Sha256, KidSpec::Sha384, KidSpec::Sha512, KidSpec::Pre(rng.bytes(1 + (i % 30) as usize))];
			let mut ispec = ParamSpec::minimal();
			ispec.subject = gen_name(&mut rng, 8);
			ispec.is_ca = if i % 7 == 0 { IsCaSpec::Ca(Some(rng.below(3) as u8)) } else { IsCaSpec::Ca(None) };
			ispec.kid = kids[(i % 4) as usize].clone();
			ispec.not_before = TimeSpec::utc(1_500_000_000);
			ispec.not_after = TimeSpec::utc(2_500_000_000);
			ispec.ku = if i % 3 == 0 { 0b0110_0000 } else { 0 };
			let mut lspec = gen_params(&mut rng);
			lspec.is_ca = IsCaSpec::No;
			lspec.use_aki = i % 5 != 4;
			lspec.kid = kids[((i / 4) % 4) as usize].clone();
			lspec.not_before = TimeSpec::utc(1_600_000_000);
			lspec.not_after = TimeSpec::utc(2_400_000_000);
			lspec.nc = None;
			// a validator must reject unknown critical extensions; that dimension belongs to C02, not here
			for c in lspec.custom.iter_mut() {
				c.critical = false;
			}
			let text = format!("issuer_key={} leaf_key={} issuer={:?} leaf={:?}", ik.label, lk.label, ispec, lspec);
			let r = crate::guard(|| -> Result<(Certificate, Certificate), String> {
				let ic = ispec.to_rcgen(None).self_signed(&ik.kp).map_err(|e| format!("issuer: {}", e))?;
				// the three issuance routes in turn (key pair, SubjectPublicKeyInfo, parsed CSR)
				let lc = crate::mon::certs::issue_via(i / 16, lspec.to_rcgen(None), lk, &ic, &ik.kp).map_err(|e| format!("leaf: {}", e))?;
				Ok((ic, lc))
			});
			ctx.distinct(crate::util::fnv64(text.as_bytes()));
			ctx.sample(|| format!("rcgen-issuer#{}: {}", i, crate::util::clip(&text, 500)));
			match r {
				Err(p) => ctx.violation("c03:panic", &case, &text, &p),
				Ok(Err(e)) => ctx.violation("c03:refused", &case, &text, &e),
				Ok(Ok((ic, lc))) => check_chain(ctx, &case, &text, ic.der(), &lc, lspec.use_aki, ik.sig, lk.sig, "rcgen"),
			}
		});
	}

	// --- (b) rcgen CA -> DER/PEM -> import -> re-created with the same key -> leaf must chain to the ORIGINAL
	let n_b = ctx.scale(600, 20_000);
	if ctx.replay.as_ref().map_or(true, |r| r.workload == "reimport") {
		par_for(n_b, ctx.threads, |i| {
			if let Some(r) = &ctx.replay {
				if r.index != i {
					return;
				}
			}
			let case = CaseId::new("reimport", ctx.seed, i);
			let mut rng = case.rng();
			let ik = locals[(i % locals.len() as u64) as usize];
			let lk = rng.pick(pool);
			let mut ispec = gen_params(&mut rng);
			ispec.is_ca = IsCaSpec::Ca(if rng.chance(1, 3) { Some(rng.below(200) as u8) } else { None });
			ispec.not_before = TimeSpec::utc(1_500_000_000);
			ispec.not_after = TimeSpec::utc(2_500_000_000);
			ispec.ku = if i % 2 == 0 { 0 } else { ispec.ku | (1 << 5) };
			// constraints on what the CA may issue are C12's subject; unknown critical extensions C02's
			ispec.nc = None;
			ispec.ekus.clear();
			for c in ispec.custom.iter_mut() {
				c.critical = false;
			}
			let text = format!("issuer_key={} leaf_key={} issuer={:?}", ik.label, lk.label, ispec);
			let r = crate::guard(|| -> Result<Option<(Vec<u8>, Certificate)>, String> {
				let orig = ispec.to_rcgen(None).self_signed(&ik.kp).map_err(|e| format!("original CA: {}", e))?;
				let imported = if i % 2 == 0 {
					CertificateParams::from_ca_cert_der(orig.der())
				} else {
					CertificateParams::from_ca_cert_pem(&orig.pem())
				};
				let imported = match imported {
					Ok(p) => p,
					Err(_) => return Ok(None),
				};
				let again = imported.self_signed(&ik.kp).map_err(|e| format!("re-created CA: {}", e))?;
				let mut leaf = CertificateParams::default();
				leaf.use_authority_key_identifier_extension = true;
				leaf.not_before = TimeSpec::utc(1_600_000_000).to_time().unwrap();
				leaf.not_after = TimeSpec::utc(2_400_000_000).to_time().unwrap();
				let lc = crate::mon::certs::issue_via(i, leaf, lk, &again, &ik.kp).map_err(|e| format!("leaf: {}", e))?;
				Ok(Some((orig.der().to_vec(), lc)))
			});
			ctx.distinct(crate::util::fnv64(text.as_bytes()));
			match r {
				Err(p) => ctx.violation("c03:reimport-panic", &case, &text, &p),
				Ok(Err(e)) => ctx.violation("c03:reimport-error", &case, &text, &e),
				Ok(Ok(None)) => {
					ctx.count("eval:import_refused");
					ctx.violation("c03:reimport-own-certificate-refused", &case, &text, "from_ca_cert_der/pem refuses a certificate rcgen generated itself");
				},
				Ok(Ok(Some((orig, lc)))) => check_chain(ctx, &case, &text, &orig, &lc, true, ik.sig, lk.sig, "reimport"),
			}
		});
	}

	// --- (b2) an INTERMEDIATE made by rcgen (it carries an AKI naming the root and its own SKI), imported, re-created
	let n_b2 = ctx.scale(300, 8_000);
	if ctx.replay.as_ref().map_or(true, |r| r.workload == "reimport-intermediate") {
		par_for(n_b2, ctx.threads, |i| {
			if let Some(r) = &ctx.replay {
				if r.index != i {
					return;
				}
			}
			let case = CaseId::new("reimport-intermediate", ctx.seed, i);
			let mut rng = case.rng();
			let rk = locals[(i % locals.len() as u64) as usize];
			let ik = locals[((i / 3 + 1) % locals.len() as u64) as usize];
			let lk = rng.pick(pool);
			let kids = [KidSpec::Sha256, KidSpec::Sha384, KidSpec::Sha512, KidSpec::Pre(rng.bytes(20))];
			let mut rspec = ParamSpec::minimal();
			rspec.subject = gen_name(&mut rng, 4);
			if rspec.subject.is_empty() {
				rspec.subject = ParamSpec::minimal().subject;
			}
			rspec.is_ca = IsCaSpec::Ca(None);
			rspec.kid = kids[(i % 4) as usize].clone();
			rspec.not_before = TimeSpec::utc(1_500_000_000);
			rspec.not_after = TimeSpec::utc(2_500_000_000);
			let mut ispec = rspec.clone();
			ispec.subject = gen_name(&mut rng, 5);
			if ispec.subject.is_empty() || name_spec_key(&ispec.subject) == name_spec_key(&rspec.subject) {
				ispec.subject = vec![AttrSpec { ty: DnTy::Cn, kind: StrKind::Utf8, text: format!("intermediate {}", i) }];
			}
			ispec.kid = kids[((i / 4) % 4) as usize].clone();
			ispec.use_aki = true;
			ispec.is_ca = IsCaSpec::Ca(if i % 3 == 0 { Some(0) } else { None });
			let text = format!("root_key={} intermediate_key={} leaf_key={} root={:?} intermediate={:?}", rk.label, ik.label, lk.label, rspec, ispec);
			let r = crate::guard(|| -> Result<Option<(Vec<u8>, Vec<u8>, Certificate)>, String> {
				let root = rspec.to_rcgen(None).self_signed(&rk.kp).map_err(|e| format!("root: {}", e))?;
				let inter = ispec.to_rcgen(None).signed_by(&ik.kp, &root, &rk.kp).map_err(|e| format!("intermediate: {}", e))?;
				let imported = match if i % 2 == 0 { CertificateParams::from_ca_cert_der(inter.der()) } else { CertificateParams::from_ca_cert_pem(&inter.pem()) } {
					Ok(p) => p,
					Err(_) => return Ok(None),
				};
				let again = imported.self_signed(&ik.kp).map_err(|e| format!("re-created CA: {}", e))?;
				let mut leaf = CertificateParams::default();
				leaf.use_authority_key_identifier_extension = true;
				leaf.not_before = TimeSpec::utc(1_600_000_000).to_time().unwrap();
				leaf.not_after = TimeSpec::utc(2_400_000_000).to_time().unwrap();
				let lc = crate::mon::certs::issue_via(i, leaf, lk, &again, &ik.kp).map_err(|e| format!("leaf: {}", e))?;
				Ok(Some((root.der().to_vec(), inter.der().to_vec(), lc)))
			});
			ctx.distinct(crate::util::fnv64(text.as_bytes()));
			match r {
				Err(p) => ctx.violation("c03:reimport-panic", &case, &text, &p),
				Ok(Err(e)) => ctx.violation("c03:reimport-error", &case, &text, &e),
				Ok(Ok(None)) => ctx.violation("c03:reimport-own-certificate-refused", &case, &text, "from_ca_cert_der/pem refuses an intermediate certificate rcgen generated itself"),
				Ok(Ok(Some((root, inter, lc)))) => {
					// webpki wants the intermediate's signature algorithm to be supported as well
					let worst = if ossl::webpki_supports(rk.sig) { ik.sig } else { rk.sig };
					check_chain_via(ctx, &case, &text, &inter, Some(&root), &lc, true, worst, lk.sig, "reimport-intermediate")
				},
			}
		});
	}

	// --- (c) CA certificates made by OpenSSL, imported
	let n_c = ctx.scale(300, 6_000);
	if ctx.replay.as_ref().map_or(true, |r| r.workload == "openssl-ca") {
		par_for(n_c, ctx.threads, |i| {
			if let Some(r) = &ctx.replay {
				if r.index != i {
					return;
				}
			}
			let case = CaseId::new("openssl-ca", ctx.seed, i);
			let mut rng = case.rng();
			let ik = locals[(i % locals.len() as u64) as usize];
			let lk = rng.pick(pool);
			let ca = if i % 40 == 39 { make_cli_multivalued_ca(&tmp, ik, i) } else { make_ossl_ca(&mut rng, ik) };
			let ca = match ca {
				Ok(c) => c,
				Err(e) => return ctx.note(format!("could not make an OpenSSL CA: {}", e)),
			};
			let text = format!("issuer_key={} leaf_key={} ca={:?}", ik.label, lk.label, OsslCa { der: vec![], ..ca.clone() });
			ctx.count("eval:openssl_cas_offered");
			if ca.repeated_types {
				ctx.count("openssl_cas_with_repeated_attribute_types");
			}
			if ca.multi_valued {
				ctx.count("openssl_cas_with_multivalued_rdn");
			}
			let r = crate::guard(|| -> Result<Option<Vec<Certificate>>, String> {
				let imported = match CertificateParams::from_ca_cert_der(&CertificateDer::from(ca.der.clone())) {
					Ok(p) => p,
					Err(_) => return Ok(None),
				};
				let again = imported.self_signed(&ik.kp).map_err(|e| format!("re-created CA: {}", e))?;
				let mut out = Vec::new();
				for j in 0..3 {
					let mut leaf = CertificateParams::default();
					leaf.use_authority_key_identifier_extension = j != 2;
					leaf.not_before = TimeSpec::utc(ca.not_before.max(1_600_000_000) + 10).to_time().unwrap();
					leaf.not_after = TimeSpec::utc(2_400_000_000).to_time().unwrap();
					out.push(crate::mon::certs::issue_via(i + j as u64, leaf, lk, &again, &ik.kp).map_err(|e| format!("leaf: {}", e))?);
				}
				Ok(Some(out))
			});
			ctx.distinct(crate::util::fnv64(text.as_bytes()));
			ctx.sample(|| format!("openssl-ca#{}: {}", i, crate::util::clip(&text, 500)));
			match r {
				Err(p) => ctx.violation("c03:import-panic", &case, &text, &p),
				Ok(Err(e)) => ctx.violation("c03:import-error-after-ok", &case, &text, &e),
				Ok(Ok(None)) => ctx.count("eval:import_refused"),
				Ok(Ok(Some(leaves))) => {
					ctx.count("eval:import_accepted");
					for (j, lc) in leaves.iter().enumerate() {
						check_chain(ctx, &case, &text, &ca.der, lc, j != 2 && ca.ski, ik.sig, lk.sig, "openssl-ca");
					}
				},
			}
		});
	}
}

// ------------------------------------------------------------------------------------ C17

fn cidr_pair(c: &CidrSubnet) -> Vec<u8> {
	match c {
		CidrSubnet::V4(a, m) => a.iter().chain(m.iter()).cloned().collect(),
		CidrSubnet::V6(a, m) => a.iter().chain(m.iter()).cloned().collect(),
	}
}

fn subtree_key(t: &GeneralSubtree) -> String {
	match t {
		GeneralSubtree::Rfc822Name(s) => format!("email:{}", hex(s.as_bytes())),
		GeneralSubtree::DnsName(s) => format!("dns:{}", hex(s.as_bytes())),
		GeneralSubtree::DirectoryName(n) => format!("dir:{:?}", n.iter().collect::<Vec<_>>()),
		GeneralSubtree::IpAddress(c) => format!("ip:{}", hex(&cidr_pair(c))),
		_ => "other".into(),
	}
}

fn spec_subtree_key(t: &SubtreeSpec) -> String {
	match t {
		SubtreeSpec::Dir(n) => {
			let dn = name_to_rcgen(n);
			format!("dir:{:?}", dn.iter().collect::<Vec<_>>())
		},
		other => other.key(),
	}
}

fn sorted(mut v: Vec<String>) -> Vec<String> {
	v.sort();
	v
}

/// compare imported parameters with the spec the certificate was generated from
fn compare_import(ctx: &Ctx, case: &CaseId, text: &str, spec: &ParamSpec, cert_view: &CertView, imp: &CertificateParams, tag: &str) {
	let mut bad = |what: &str, d: String| ctx.violation(&format!("c17:{}:{}", tag, what), case, text, &d);
	if imp.distinguished_name != name_to_rcgen(&spec.subject) {
		bad("subject", format!("imported {:?}", imp.distinguished_name.iter().collect::<Vec<_>>()));
	}
	let want_ca = match &spec.is_ca {
		IsCaSpec::No => IsCa::NoCa,
		IsCaSpec::ExplicitNo => IsCa::ExplicitNoCa,
		IsCaSpec::Ca(None) => IsCa::Ca(RBc::Unconstrained),
		IsCaSpec::Ca(Some(n)) => IsCa::Ca(RBc::Constrained(*n)),
	};
	if imp.is_ca != want_ca {
		bad("is-ca", format!("imported {:?} generated from {:?}", imp.is_ca, want_ca));
	}
	if ku_mask_of(&imp.key_usages) != spec.ku {
		bad("key-usages", format!("imported {:#011b} generated from {:#011b}", ku_mask_of(&imp.key_usages), spec.ku));
	}
	let mut got = sorted(imp.extended_key_usages.iter().map(|e| format!("{:?}", e)).collect());
	let mut want = sorted(
		spec.ekus
			.iter()
			.filter(|e| !matches!(e, EkuSpec::Other(_)))
			.map(|e| format!("{:?}", e.to_rcgen()))
			.collect(),
	);
	got.dedup();
	want.dedup();
	if got != want {
		bad("ekus", format!("imported {:?} generated from {:?}", got, want));
	}
	let got = sorted(imp.subject_alt_names.iter().map(|s| format!("{:?}", s)).collect());
	let want = sorted(spec.sans.iter().map(|s| format!("{:?}", s.to_rcgen())).collect());
	if got != want {
		bad("sans", format!("imported {:?} generated from {:?}", got, want));
	}
	let (wp, wx) = match &spec.nc {
		Some((p, x)) if !p.is_empty() || !x.is_empty() => (sorted(p.iter().map(spec_subtree_key).collect()), sorted(x.iter().map(spec_subtree_key).collect())),
		_ => (vec![], vec![]),
	};
	let (gp, gx) = match &imp.name_constraints {
		Some(nc) => (
			sorted(nc.permitted_subtrees.iter().map(subtree_key).collect()),
			sorted(nc.excluded_subtrees.iter().map(subtree_key).collect()),
		),
		None => (vec![], vec![]),
	};
	if gp != wp {
		bad("nc-permitted", format!("imported {:?} generated from {:?}", gp, wp));
	}
	if gx != wx {
		bad("nc-excluded", format!("imported {:?} generated from {:?}", gx, wx));
	}
	let serial_in_cert = x509::int_magnitude(&cert_view.serial);
	match &imp.serial_number {
		None => bad("serial", "no serial number imported".into()),
		Some(s) => {
			if x509::strip_zeros(s.as_ref()) != serial_in_cert {
				bad("serial", format!("imported {} certificate has {}", hex(s.as_ref()), hex(&serial_in_cert)));
			}
			if let Some(req) = &spec.serial {
				if x509::strip_zeros(req) != x509::strip_zeros(s.as_ref()) {
					bad("serial", format!("imported {} generated from {}", hex(s.as_ref()), hex(req)));
				}
			}
		},
	}
	if imp.not_before.unix_timestamp() != spec.not_before.unix || imp.not_after.unix_timestamp() != spec.not_after.unix {
		bad(
			"validity",
			format!(
				"imported {}..{} generated from {}..{}",
				imp.not_before.unix_timestamp(),
				imp.not_after.unix_timestamp(),
				spec.not_before.unix,
				spec.not_after.unix
			),
		);
	}
	if let Some(v) = ext_value(cert_view, x509::OID_SKI) {
		if let Ok(ski) = x509::parse_ski(v) {
			if imp.key_identifier_method != KeyIdMethod::PreSpecified(ski.clone()) {
				bad("key-identifier", format!("imported {:?}, certificate carries SKI {}", imp.key_identifier_method, hex(&ski)));
			}
		}
	}
}

pub fn run_c17(ctx: &Ctx, pool: &[PoolKey]) {
	let locals = local_keys(pool);
	// workloads: all key-usage subsets, all path lengths, all prefixes, random
	let workloads: [(&str, u64); 4] = [("ku", 512), ("pathlen", 256), ("prefix", 512), ("random", ctx.scale(12_000, 250_000))];
	for (wl, n) in workloads {
		if let Some(r) = &ctx.replay {
			if r.workload != wl {
				continue;
			}
		}
		par_for(n, ctx.threads, |i| {
			if let Some(r) = &ctx.replay {
				if r.index != i {
					return;
				}
			}
			let case = CaseId::new(wl, ctx.seed, i);
			let mut rng = case.rng();
			let mut spec = match wl {
				"random" => gen_params(&mut rng),
				_ => ParamSpec::minimal(),
			};
			match wl {
				"ku" => {
					spec.ku = i as u16;
					spec.is_ca = gen_is_ca(&mut rng);
				},
				"pathlen" => spec.is_ca = IsCaSpec::Ca(Some(i as u8)),
				"prefix" => {
					let v6 = i >= 256;
					let trees: Vec<SubtreeSpec> = (0..5)
						.map(|ctor| SubtreeSpec::Ip(CidrSpec { addr: rng.bytes(if v6 { 16 } else { 4 }), prefix: (i % 256) as u8, ctor }))
						.collect();
					spec.is_ca = IsCaSpec::Ca(None);
					spec.nc = Some(if i % 2 == 0 { (trees, vec![]) } else { (vec![], trees) });
				},
				_ => {},
			}
			let key = locals[(rng.below(locals.len() as u64)) as usize];
			let text = format!("key={} spec={:?}", key.label, spec);
			if wl == "random" {
				ctx.distinct(spec.hash());
			} else {
				ctx.count(&format!("dist:{}", wl));
			}
			ctx.count(&format!("eval:import:{}", wl));
			ctx.sample(|| format!("{}#{}: {}", wl, i, crate::util::clip(&text, 500)));
			// every third random case is issued by another CA and carries an authority key identifier
			let issuer_key = locals[((i / 3) % locals.len() as u64) as usize];
			let issued = wl == "random" && i % 3 == 0;
			if issued {
				spec.use_aki = true;
			}
			let r = crate::guard(|| -> Result<(), String> {
				let cert = if issued {
					let mut ispec = ParamSpec::minimal();
					ispec.is_ca = IsCaSpec::Ca(None);
					ispec.subject = vec![AttrSpec { ty: DnTy::Cn, kind: StrKind::Utf8, text: "c17 issuer".into() }];
					ispec.kid = [KidSpec::Sha256, KidSpec::Sha384, KidSpec::Pre(vec![7; 20])][(i % 9 / 3) as usize].clone();
					let ica = ispec.to_rcgen(None).self_signed(&issuer_key.kp).map_err(|e| format!("issuer generation failed: {}", e))?;
					spec.to_rcgen(None).signed_by(&key.kp, &ica, &issuer_key.kp).map_err(|e| format!("generation failed: {}", e))?
				} else {
					spec.to_rcgen(None).self_signed(&key.kp).map_err(|e| format!("generation failed: {}", e))?
				};
				let view = x509::parse_certificate(cert.der()).map_err(|e| format!("derx: {}", e))?;
				let imp = match CertificateParams::from_ca_cert_der(cert.der()) {
					Ok(p) => p,
					Err(e) => {
						ctx.violation("c17:import-refused", &case, &text, &format!("from_ca_cert_der refuses a certificate rcgen generated: {}", e));
						return Ok(());
					},
				};
				compare_import(ctx, &case, &text, &spec, &view, &imp, "import");
				// PEM and DER import agree
				match CertificateParams::from_ca_cert_pem(&cert.pem()) {
					Ok(p2) => {
						if p2 != imp {
							ctx.violation("c17:pem-der-disagree", &case, &text, "from_ca_cert_pem and from_ca_cert_der return different parameters");
						}
					},
					Err(e) => ctx.violation("c17:pem-import-refused", &case, &text, &e.to_string()),
				}
				// re-issue from the imported parameters with the same key: the recovered fields must be reproduced
				let again = imp.clone().self_signed(&key.kp).map_err(|e| format!("re-issue failed: {}", e))?;
				let view2 = x509::parse_certificate(again.der()).map_err(|e| format!("derx on re-issued: {}", e))?;
				let same = |oid: &[u64]| ext_value(&view, oid) == ext_value(&view2, oid);
				let mut diffs = Vec::new();
				if view.subject.raw != view2.subject.raw {
					diffs.push("subject");
				}
				if view.serial != view2.serial {
					diffs.push("serial");
				}
				if view.not_before != view2.not_before || view.not_after != view2.not_after {
					diffs.push("validity");
				}
				for (oid, name) in [(x509::OID_BC, "basicConstraints"), (x509::OID_KU, "keyUsage"), (x509::OID_SKI, "subjectKeyIdentifier")] {
					if !same(oid) {
						diffs.push(name);
					}
				}
				// SAN / NC: same content as multisets
				let san = |v: &CertView| ext_value(v, x509::OID_SAN).map(|x| x509::parse_san(x).map(|n| sorted(n.iter().map(gn_key).collect())));
				if san(&view) != san(&view2) {
					diffs.push("subjectAltName");
				}
				let nc = |v: &CertView| {
					ext_value(v, x509::OID_NC).map(|x| {
						x509::parse_nc(x).map(|(p, e)| (sorted(p.iter().map(gn_key).collect()), sorted(e.iter().map(gn_key).collect())))
					})
				};
				if nc(&view) != nc(&view2) {
					diffs.push("nameConstraints");
				}
				// standard EKUs only
				let eku = |v: &CertView| {
					ext_value(v, x509::OID_EKU)
						.map(|x| x509::parse_eku(x).unwrap_or_default())
						.unwrap_or_default()
						.into_iter()
						.filter(|o| STD_EKUS.iter().any(|s| &s.oid() == o))
						.collect::<std::collections::BTreeSet<_>>()
				};
				if eku(&view) != eku(&view2) {
					diffs.push("extKeyUsage");
				}
				if !diffs.is_empty() {
					ctx.violation(&format!("c17:reissue-differs:{}", diffs.join("+")), &case, &text, &format!("fields differing after import + re-issue: {:?}", diffs));
				}
				// a second trip: importing the re-issued certificate recovers the same parameters again
				match CertificateParams::from_ca_cert_der(again.der()) {
					Ok(imp2) => {
						ctx.count("eval:second_import");
						if imp2 != imp {
							ctx.violation("c17:second-import-differs", &case, &text, &format!("first import {:?}\nsecond import {:?}", imp, imp2));
						}
					},
					Err(e) => ctx.violation("c17:second-import-refused", &case, &text, &e.to_string()),
				}
				Ok(())
			});
			match r {
				Err(p) => ctx.violation("c17:panic", &case, &text, &p),
				Ok(Err(e)) => ctx.violation("c17:error", &case, &text, &e),
				Ok(Ok(())) => {},
			}
		});
	}

	// directed: name constraints holding a directory name the import cannot represent (an attribute type twice: once by
	// its named variant, once as a custom type with the same OID). rcgen writes such a certificate; importing it may be
	// refused, but an import that succeeds must hold as many subtrees of each kind as the certificate does.
	if ctx.replay.as_ref().map_or(true, |r| r.workload == "unrepresentable-subtree") {
		for i in 0..48u64 {
			if let Some(r) = &ctx.replay {
				if r.index != i {
					continue;
				}
			}
			let case = CaseId::new("unrepresentable-subtree", ctx.seed, i);
			let mut rng = case.rng();
			let std_ty = STD_TYPES[(i % 6) as usize].clone();
			let twice = vec![
				AttrSpec { ty: std_ty.clone(), kind: StrKind::Utf8, text: "first".into() },
				AttrSpec { ty: DnTy::Custom(std_ty.oid()), kind: StrKind::Utf8, text: "second".into() },
			];
			let mut others: Vec<SubtreeSpec> = (0..(i / 6 % 3)).map(|_| if rng.chance(1, 2) { SubtreeSpec::Dns(gen_host(&mut rng)) } else { SubtreeSpec::Ip(gen_cidr(&mut rng)) }).collect();
			others.insert(rng.below(others.len() as u64 + 1) as usize, SubtreeSpec::Dir(twice));
			let mut spec = ParamSpec::minimal();
			spec.is_ca = IsCaSpec::Ca(None);
			spec.nc = Some(match i / 18 {
				0 => (others, vec![]),
				1 => (vec![], others),
				_ => (vec![SubtreeSpec::Dns(gen_host(&mut rng))], others),
			});
			let key = locals[(i % locals.len() as u64) as usize];
			let text = format!("key={} spec={:?}", key.label, spec);
			ctx.count("eval:import:unrepresentable-subtree");
			let r = crate::guard(|| -> Result<(), String> {
				let cert = spec.to_rcgen(None).self_signed(&key.kp).map_err(|e| format!("generation failed: {}", e))?;
				let view = x509::parse_certificate(cert.der()).map_err(|e| format!("derx: {}", e))?;
				let (wp, wx) = ext_value(&view, x509::OID_NC).map(x509::parse_nc).transpose()?.unwrap_or_default();
				match CertificateParams::from_ca_cert_der(cert.der()) {
					Err(_) => ctx.count("eval:unrepresentable_subtree_refused"),
					Ok(imp) => {
						ctx.count("eval:unrepresentable_subtree_imported");
						let (gp, gx) = imp.name_constraints.as_ref().map_or((0, 0), |n| (n.permitted_subtrees.len(), n.excluded_subtrees.len()));
						if (gp, gx) != (wp.len(), wx.len()) {
							ctx.violation(
								"c17:import:subtree-dropped",
								&case,
								&text,
								&format!("the certificate holds {} permitted / {} excluded subtrees, the imported parameters {} / {}", wp.len(), wx.len(), gp, gx),
							);
						}
					},
				}
				Ok(())
			});
			match r {
				Err(p) => ctx.violation("c17:panic", &case, &text, &p),
				Ok(Err(e)) => ctx.note(format!("unrepresentable-subtree #{}: {}", i, e)),
				Ok(Ok(())) => {},
			}
		}
	}

	// OpenSSL-made CA certificates with the same kinds of fields
	let n = ctx.scale(300, 4_000);
	if ctx.replay.as_ref().map_or(true, |r| r.workload == "openssl-ca") {
		par_for(n, ctx.threads, |i| {
			if let Some(r) = &ctx.replay {
				if r.index != i {
					return;
				}
			}
			let case = CaseId::new("openssl-ca", ctx.seed, i);
			let mut rng = case.rng();
			let key = locals[(i % locals.len() as u64) as usize];
			let ca = match make_ossl_ca(&mut rng, key) {
				Ok(c) => c,
				Err(e) => return ctx.note(format!("could not make an OpenSSL CA: {}", e)),
			};
			let text = format!("key={} ca={:?}", key.label, OsslCa { der: vec![], ..ca.clone() });
			ctx.count("eval:import:openssl-ca");
			ctx.distinct(crate::util::fnv64(text.as_bytes()));
			let r = crate::guard(|| CertificateParams::from_ca_cert_der(&CertificateDer::from(ca.der.clone())));
			match r {
				Err(p) => ctx.violation("c17:openssl-import-panic", &case, &text, &p),
				Ok(Err(_)) => {
					ctx.count("eval:openssl_import_refused");
					if !ca.repeated_types && !ca.huge_arc {
						ctx.violation("c17:openssl-import-refused", &case, &text, "a plain OpenSSL CA (single-valued RDNs, distinct attribute types) is refused");
					}
				},
				Ok(Ok(imp)) => {
					let mut bad = |what: &str, d: String| ctx.violation(&format!("c17:openssl:{}", what), &case, &text, &d);
					let want_ca = match ca.pathlen {
						Some(n) => IsCa::Ca(RBc::Constrained(n as u8)),
						None => IsCa::Ca(RBc::Unconstrained),
					};
					if imp.is_ca != want_ca {
						bad("is-ca", format!("imported {:?} asked {:?}", imp.is_ca, want_ca));
					}
					if ku_mask_of(&imp.key_usages) != ca.ku {
						bad("key-usages", format!("imported {:#b} asked {:#b}", ku_mask_of(&imp.key_usages), ca.ku));
					}
					let got = sorted(imp.extended_key_usages.iter().map(|e| format!("{:?}", e)).collect());
					let want = sorted(ca.ekus.iter().map(|e| format!("{:?}", e.to_rcgen())).collect());
					if got != want {
						bad("ekus", format!("imported {:?} asked {:?}", got, want));
					}
					let got = sorted(imp.subject_alt_names.iter().map(|s| format!("{:?}", s)).collect());
					let want = sorted(ca.sans.iter().map(|s| format!("{:?}", s.to_rcgen())).collect());
					if got != want {
						bad("sans", format!("imported {:?} asked {:?}", got, want));
					}
					if imp.not_before.unix_timestamp() != ca.not_before || imp.not_after.unix_timestamp() != ca.not_after {
						bad("validity", format!("imported {}..{}", imp.not_before.unix_timestamp(), imp.not_after.unix_timestamp()));
					}
					if imp.serial_number.as_ref().map(|s| x509::strip_zeros(s.as_ref())) != Some(x509::strip_zeros(&ca.serial)) {
						bad("serial", format!("imported {:?} asked {}", imp.serial_number, hex(&ca.serial)));
					}
					let texts: Vec<String> = imp
						.distinguished_name
						.iter()
						.map(|(_, v)| match v {
							rcgen::DnValue::Utf8String(s) => s.clone(),
							rcgen::DnValue::PrintableString(s) => s.as_str().to_string(),
							rcgen::DnValue::Ia5String(s) => s.as_str().to_string(),
							rcgen::DnValue::TeletexString(s) => s.as_str().to_string(),
							rcgen::DnValue::BmpString(s) => x509::decode_string(crate::derx::BMP, s.as_bytes()).unwrap_or_default(),
							rcgen::DnValue::UniversalString(s) => x509::decode_string(crate::derx::UNIVERSAL, s.as_bytes()).unwrap_or_default(),
							_ => String::new(),
						})
						.collect();
					let want: Vec<String> = ca.subject.iter().map(|x| x.2.clone()).collect();
					if texts != want {
						bad("subject", format!("imported values {:?} asked {:?}", texts, want));
					}
					if ca.ski {
						if !matches!(imp.key_identifier_method, KeyIdMethod::PreSpecified(_)) {
							bad("key-identifier", format!("{:?}", imp.key_identifier_method));
						}
					}
				},
			}
		});
	}
}
