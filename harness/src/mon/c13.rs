//! C13 – ASN.1 string types admit exactly their alphabet and encode losslessly.
//!
//! Oracle: alphabet predicates transcribed from the property text (`StrKind::admits`), independent
//! UTF-16BE / UTF-32BE encoders, and the `derx` decoder for what ends up in certificates.

use std::str::FromStr;

use rcgen::string::{BmpString, Ia5String, PrintableString, TeletexString, UniversalString};
use rcgen::{CertificateParams, DistinguishedName, DnType, SanType};

use crate::ctx::{par_for, CaseId, Ctx};
use crate::spec::{dn_value, StrKind, ALL_KINDS};
use crate::util::{fnv64, hex};
use crate::x509;

/// run all text constructors of `kind` on `s`; returns (verdicts, stored bytes if accepted)
fn construct(kind: StrKind, s: &str) -> Result<(Vec<bool>, Option<Vec<u8>>), String> {
	crate::guard(|| {
		let mut verdicts = Vec::new();
		let mut stored: Option<Vec<u8>> = None;
		let mut put = |ok: bool, bytes: Option<Vec<u8>>| {
			verdicts.push(ok);
			if let Some(b) = bytes {
				match &stored {
					None => stored = Some(b),
					Some(prev) => {
						if prev != &b {
							// encode the disagreement as an impossible verdict vector
							verdicts.push(!ok);
						}
					},
				}
			}
		};
		match kind {
			StrKind::Printable => {
				let a = PrintableString::try_from(s);
				put(a.is_ok(), a.ok().map(|x| x.as_str().as_bytes().to_vec()));
				let a = PrintableString::try_from(s.to_string());
				put(a.is_ok(), a.ok().map(|x| x.as_str().as_bytes().to_vec()));
				let a = PrintableString::from_str(s);
				put(a.is_ok(), a.ok().map(|x| x.as_str().as_bytes().to_vec()));
			},
			StrKind::Ia5 => {
				let a = Ia5String::try_from(s);
				put(a.is_ok(), a.ok().map(|x| x.as_str().as_bytes().to_vec()));
				let a = Ia5String::try_from(s.to_string());
				put(a.is_ok(), a.ok().map(|x| x.as_str().as_bytes().to_vec()));
				let a = Ia5String::from_str(s);
				put(a.is_ok(), a.ok().map(|x| x.as_str().as_bytes().to_vec()));
			},
			StrKind::Teletex => {
				let a = TeletexString::try_from(s);
				put(a.is_ok(), a.ok().map(|x| x.as_bytes().to_vec()));
				let a = TeletexString::try_from(s.to_string());
				put(a.is_ok(), a.ok().map(|x| x.as_str().as_bytes().to_vec()));
				let a = TeletexString::from_str(s);
				put(a.is_ok(), a.ok().map(|x| x.as_bytes().to_vec()));
			},
			StrKind::Bmp => {
				let a = BmpString::try_from(s);
				put(a.is_ok(), a.ok().map(|x| x.as_bytes().to_vec()));
				let a = BmpString::try_from(s.to_string());
				put(a.is_ok(), a.ok().map(|x| x.as_bytes().to_vec()));
				let a = BmpString::from_str(s);
				put(a.is_ok(), a.ok().map(|x| x.as_bytes().to_vec()));
			},
			StrKind::Universal => {
				let a = UniversalString::try_from(s);
				put(a.is_ok(), a.ok().map(|x| x.as_bytes().to_vec()));
				let a = UniversalString::try_from(s.to_string());
				put(a.is_ok(), a.ok().map(|x| x.as_bytes().to_vec()));
			},
			StrKind::Utf8 => {},
		}
		(verdicts, stored)
	})
}

fn check_text(ctx: &Ctx, case: &CaseId, kind: StrKind, s: &str) {
	let want = s.chars().all(|c| kind.admits(c));
	match construct(kind, s) {
		Err(p) => ctx.violation(&format!("c13:ctor-panic:{:?}", kind), case, &format!("{:?} {:?}", kind, s), &p),
		Ok((verdicts, stored)) => {
			if verdicts.iter().any(|v| *v != want) {
				ctx.violation(
					&format!("c13:alphabet:{:?}", kind),
					case,
					&format!("{:?} {:?} (U+{})", kind, s, s.chars().map(|c| format!("{:04X}", c as u32)).collect::<Vec<_>>().join(" U+")),
					&format!("constructors returned {:?} (per constructor, true=accepted), alphabet says {}", verdicts, want),
				);
			} else if want {
				let exp = kind.encode(s);
				if stored.as_deref() != Some(&exp[..]) {
					ctx.violation(
						&format!("c13:stored-bytes:{:?}", kind),
						case,
						&format!("{:?} {:?}", kind, s),
						&format!("stored {:?} expected {}", stored.map(|b| hex(&b)), hex(&exp)),
					);
				}
			}
		},
	}
}

const TEXT_KINDS: [StrKind; 5] = [StrKind::Printable, StrKind::Ia5, StrKind::Teletex, StrKind::Bmp, StrKind::Universal];

fn utf16_ok(units: &[u16]) -> bool {
	units.iter().all(|u| !(0xd800..=0xdfff).contains(u) && *u != 0xffff)
}

fn check_utf16(ctx: &Ctx, case: &CaseId, bytes: Vec<u8>) {
	let want = bytes.len() % 2 == 0 && utf16_ok(&bytes.chunks(2).map(|c| u16::from_be_bytes([c[0], c[1]])).collect::<Vec<_>>());
	let b2 = bytes.clone();
	match crate::guard(move || BmpString::from_utf16be(b2).map(|s| s.as_bytes().to_vec())) {
		Err(p) => ctx.violation("c13:utf16-panic", case, &hex(&bytes), &p),
		Ok(r) => {
			if r.is_ok() != want {
				ctx.violation(
					"c13:from_utf16be-verdict",
					case,
					&hex(&bytes),
					&format!("accepted={} but well-formed BMP encoding={}", r.is_ok(), want),
				);
			} else if let Ok(stored) = r {
				if stored != bytes {
					ctx.violation("c13:from_utf16be-bytes", case, &hex(&bytes), &format!("stored {}", hex(&stored)));
				}
			}
		},
	}
	ctx.count("enum:byte_level_calls");
}

fn check_utf32(ctx: &Ctx, case: &CaseId, bytes: Vec<u8>) {
	let want = bytes.len() % 4 == 0
		&& bytes
			.chunks(4)
			.all(|c| char::from_u32(u32::from_be_bytes([c[0], c[1], c[2], c[3]])).is_some());
	let b2 = bytes.clone();
	match crate::guard(move || UniversalString::from_utf32be(b2).map(|s| s.as_bytes().to_vec())) {
		Err(p) => ctx.violation("c13:utf32-panic", case, &hex(&bytes), &p),
		Ok(r) => {
			if r.is_ok() != want {
				ctx.violation(
					"c13:from_utf32be-verdict",
					case,
					&hex(&bytes),
					&format!("accepted={} but well-formed UTF-32BE={}", r.is_ok(), want),
				);
			} else if let Ok(stored) = r {
				if stored != bytes {
					ctx.violation("c13:from_utf32be-bytes", case, &hex(&bytes), &format!("stored {}", hex(&stored)));
				}
			}
		},
	}
	ctx.count("enum:byte_level_calls");
}

/// Put `text` of `kind` into a subject attribute (and, for IA5, into SANs), serialise, decode
/// independently and compare text and tag. Returns false on mismatch (after reporting).
fn check_serialise(ctx: &Ctx, case: &CaseId, key: &rcgen::KeyPair, kind: StrKind, text: &str) -> bool {
	check_serialise_as(ctx, case, key, kind, text, DnType::OrganizationName)
}

/// the attribute types a value can sit under: the encoding of the value must not depend on it
fn attr_types() -> Vec<DnType> {
	vec![
		DnType::CountryName,
		DnType::LocalityName,
		DnType::StateOrProvinceName,
		DnType::OrganizationName,
		DnType::OrganizationalUnitName,
		DnType::CommonName,
		DnType::CustomDnType(vec![0, 9, 2342, 19200300, 100, 1, 25]),
		DnType::CustomDnType(vec![1, 2, 840, 113549, 1, 9, 1]),
	]
}

fn check_serialise_as(ctx: &Ctx, case: &CaseId, key: &rcgen::KeyPair, kind: StrKind, text: &str, ty: DnType) -> bool {
	let mut p = CertificateParams::default();
	let mut dn = DistinguishedName::new();
	let value = match crate::guard(|| dn_value(kind, text)) {
		Ok(v) => v,
		Err(_) => {
			// the constructor refused a text made of alphabet characters only (reported by the sweep as well)
			ctx.violation(
				&format!("c13:alphabet:{:?}", kind),
				case,
				&format!("{:?} {:?}", kind, crate::util::clip(text, 80)),
				"constructor refuses a text made only of characters of the type's alphabet",
			);
			return false;
		},
	};
	dn.push(ty.clone(), value);
	p.distinguished_name = dn;
	p.serial_number = Some(rcgen::SerialNumber::from_slice(&[1]));
	if kind == StrKind::Ia5 {
		let ia5 = Ia5String::try_from(text).unwrap();
		p.subject_alt_names = vec![SanType::DnsName(ia5.clone()), SanType::Rfc822Name(ia5.clone()), SanType::URI(ia5)];
	}
	ctx.count("eval:serialise_calls");
	let label = format!("{:?} {:?} under {:?}", kind, crate::util::clip(text, 80), ty);
	let cert = match crate::guard(|| p.self_signed(key)) {
		Err(pn) => {
			ctx.violation(&format!("c13:serialise-panic:{:?}", kind), case, &label, &pn);
			return false;
		},
		Ok(Err(e)) => {
			ctx.violation(&format!("c13:serialise-error:{:?}", kind), case, &label, &e.to_string());
			return false;
		},
		Ok(Ok(c)) => c,
	};
	let v = match x509::parse_certificate(cert.der()) {
		Err(e) => {
			ctx.violation(&format!("c13:undecodable:{:?}", kind), case, &label, &e);
			return false;
		},
		Ok(v) => v,
	};
	let atvs = v.subject.flat();
	let ok = atvs.len() == 1 && atvs[0].tag == kind.tag() && atvs[0].text().ok().as_deref() == Some(text);
	if !ok {
		ctx.violation(
			&format!("c13:roundtrip:{:?}", kind),
			case,
			&label,
			&format!("decoded subject {:?}", atvs.iter().map(|a| (a.tag, a.text())).collect::<Vec<_>>()),
		);
		return false;
	}
	if kind == StrKind::Ia5 {
		let san = v
			.exts
			.as_ref()
			.and_then(|e| e.iter().find(|e| e.oid == x509::OID_SAN))
			.map(|e| x509::parse_san(&e.value));
		let want = vec![
			x509::GeneralName::Dns(text.as_bytes().to_vec()),
			x509::GeneralName::Rfc822(text.as_bytes().to_vec()),
			x509::GeneralName::Uri(text.as_bytes().to_vec()),
		];
		if san != Some(Ok(want)) {
			ctx.violation("c13:roundtrip-san", case, &label, &format!("decoded SAN {:?}", san));
			return false;
		}
	}
	true
}

/// is `bytes` a well-formed value of the string type with universal tag `tag`?
fn wellformed(tag: u32, bytes: &[u8]) -> bool {
	match tag {
		0x1e => bytes.len() % 2 == 0 && utf16_ok(&bytes.chunks(2).map(|c| u16::from_be_bytes([c[0], c[1]])).collect::<Vec<_>>()),
		0x1c => bytes.len() % 4 == 0 && bytes.chunks(4).all(|c| char::from_u32(u32::from_be_bytes([c[0], c[1], c[2], c[3]])).is_some()),
		0x13 => bytes.iter().all(|b| StrKind::Printable.admits(*b as char)),
		0x16 => bytes.iter().all(|b| *b < 0x80),
		0x14 => bytes.iter().all(|b| StrKind::Teletex.admits(*b as char)),
		0x0c => std::str::from_utf8(bytes).is_ok(),
		_ => false,
	}
}

/// The string types are also constructed by the *import* path (names of foreign CA certificates).
/// A certificate whose O attribute is replaced by arbitrary content octets under each string tag is
/// imported: what is admitted must be a well-formed value of that type, stored octet for octet,
/// and must be written back octet for octet.
#[cfg(not(miri))]
fn imported_strings(ctx: &Ctx, key: &rcgen::KeyPair) {
	use crate::mutate::{self, Body, Node};
	use crate::util::Rng;
	const PLACEHOLDER: &[u8] = b"placeholder-xyz";
	let mut p = CertificateParams::default();
	p.is_ca = rcgen::IsCa::Ca(rcgen::BasicConstraints::Unconstrained);
	let mut dn = DistinguishedName::new();
	dn.push(DnType::OrganizationName, "placeholder-xyz");
	dn.push(DnType::CommonName, "c13 import");
	p.distinguished_name = dn;
	let base = match crate::guard(|| p.self_signed(key)) {
		Ok(Ok(c)) => c.der().to_vec(),
		other => return ctx.violation("c13:issuer-setup", &CaseId::new("imported-strings", 0, 0), "base CA", &format!("{:?}", other.map(|r| r.map(|_| ()).map_err(|e| e.to_string())))),
	};
	fn patch(nodes: &mut [Node], tag: u8, bytes: &[u8], placeholder: &[u8]) -> u32 {
		let mut n = 0;
		for nd in nodes.iter_mut() {
			match &mut nd.body {
				Body::Prim(b) if b.as_slice() == placeholder => {
					nd.id = vec![tag];
					*b = bytes.to_vec();
					n += 1;
				},
				Body::Cons(kids) | Body::Encap(_, kids) => n += patch(kids, tag, bytes, placeholder),
				_ => {},
			}
		}
		n
	}
	let tags: [u8; 6] = [0x1e, 0x1c, 0x13, 0x16, 0x14, 0x0c];
	let n = ctx.scale(6_000, 200_000);
	par_for(n, ctx.threads, |i| {
		let case = CaseId::new("imported-strings", ctx.seed, i);
		if let Some(r) = &ctx.replay {
			if r.index != i {
				return;
			}
		}
		let mut rng = Rng::derive(ctx.seed, "c13-import", i);
		let tag = tags[(i % 6) as usize];
		let directed: [&[u8]; 12] = [
			&[0x00, 0x41, 0x00, 0x42, 0x43],
			&[0xd8, 0x00],
			&[0xd8, 0x3d, 0xde, 0x00],
			&[0xff, 0xff],
			&[0x00],
			&[],
			&[0x00, 0x00, 0x00, 0x41],
			&[0x00, 0x11, 0x00, 0x00],
			&[0x00, 0x00, 0xd8, 0x00],
			&[0x00, 0x00, 0x00, 0x41, 0x00],
			&[0xe9],
			&[0xc3, 0xa9],
		];
		let bytes: Vec<u8> = if i / 6 < directed.len() as u64 {
			directed[(i / 6) as usize].to_vec()
		} else {
			let len = rng.below(10) as usize;
			(0..len)
				.map(|_| match rng.below(6) {
					0 => 0,
					1 => 0x41 + rng.below(26) as u8,
					2 => 0xd8 + rng.below(8) as u8,
					3 => 0xff,
					4 => rng.below(0x80) as u8,
					_ => rng.below(256) as u8,
				})
				.collect()
		};
		let mut tree = match mutate::parse_tree(&base, 0) {
			Some(t) => t,
			None => return ctx.inconclusive("cannot parse the base certificate into a TLV tree"),
		};
		if patch(&mut tree, tag, &bytes, PLACEHOLDER) != 2 {
			// subject and issuer of the self-signed base
			return ctx.inconclusive("placeholder attribute not found twice in the base certificate");
		}
		let der = mutate::serialise(&tree);
		let ok_model = wellformed(tag as u32, &bytes);
		let label = format!("foreign CA whose O attribute is tag {:#04x} with content {}", tag, hex(&bytes));
		ctx.count("eval:imported_strings");
		ctx.distinct(fnv64(label.as_bytes()));
		let cd = pki_types::CertificateDer::from(der);
		let r = crate::guard(|| rcgen::CertificateParams::from_ca_cert_der(&cd).map_err(|e| e.to_string()));
		match r {
			Err(pn) => ctx.violation("c13:import-panic", &case, &label, &pn),
			Ok(Err(_)) => ctx.count(if ok_model { "outcome:import:refused-wellformed" } else { "outcome:import:refused-malformed" }),
			Ok(Ok(imp)) => {
				ctx.count("outcome:import:accepted");
				if !ok_model {
					return ctx.violation(&format!("c13:import-admits:{:#04x}", tag), &case, &label, &format!("the import admits an ill-formed value: {:?}", imp.distinguished_name));
				}
				let stored: Option<(u32, Vec<u8>)> = imp.distinguished_name.get(&DnType::OrganizationName).map(|v| match v {
					rcgen::DnValue::BmpString(s) => (0x1e, s.as_bytes().to_vec()),
					rcgen::DnValue::UniversalString(s) => (0x1c, s.as_bytes().to_vec()),
					rcgen::DnValue::PrintableString(s) => (0x13, s.as_str().as_bytes().to_vec()),
					rcgen::DnValue::Ia5String(s) => (0x16, s.as_str().as_bytes().to_vec()),
					rcgen::DnValue::TeletexString(s) => (0x14, s.as_str().as_bytes().to_vec()),
					rcgen::DnValue::Utf8String(s) => (0x0c, s.as_bytes().to_vec()),
					_ => (0, vec![]),
				});
				if stored != Some((tag as u32, bytes.clone())) {
					return ctx.violation("c13:import-stored-bytes", &case, &label, &format!("stored as {:?}", stored.map(|(t, b): (u32, Vec<u8>)| (t, hex(&b)))));
				}
				match crate::guard(|| imp.self_signed(key).map_err(|e| e.to_string())) {
					Err(pn) => ctx.violation("c13:serialise-panic:import", &case, &label, &pn),
					Ok(Err(e)) => ctx.violation("c13:serialise-error:import", &case, &label, &e),
					Ok(Ok(c)) => match x509::parse_certificate(c.der()) {
						Err(e) => ctx.violation("c13:undecodable:import", &case, &label, &e),
						Ok(v) => {
							let atvs = v.subject.flat();
							if !atvs.iter().any(|a| a.tag == tag as u32 && a.bytes == bytes) {
								ctx.violation("c13:roundtrip:import", &case, &label, &format!("written back as {:?}", atvs.iter().map(|a| (a.tag, hex(&a.bytes))).collect::<Vec<_>>()));
							}
						},
					},
				}
			},
		}
	});
}

pub fn run(ctx: &Ctx) {
	let key = crate::any_key();
	let miri = cfg!(miri);
	#[cfg(not(miri))]
	if ctx.replay.as_ref().map_or(true, |r| r.workload == "imported-strings") {
		imported_strings(ctx, &key);
	}

	// --- 1. every Unicode scalar value as a one-character string, every type, every constructor
	let do_scalars = ctx.replay.as_ref().map_or(true, |r| r.workload == "scalars");
	if do_scalars {
		let blocks: Vec<u32> = if miri { vec![0, 0xff] } else { (0..0x1100).collect() };
		par_for(blocks.len() as u64, if miri { 1 } else { ctx.threads }, |bi| {
			let block = blocks[bi as usize];
			let case = CaseId::new("scalars", 0, block as u64);
			if let Some(r) = &ctx.replay {
				if r.index != block as u64 {
					return;
				}
			}
			let mut n = 0u64;
			let mut buf = [0u8; 4];
			for cp in block * 256..block * 256 + 256 {
				if let Some(c) = char::from_u32(cp) {
					let s: &str = c.encode_utf8(&mut buf);
					for k in TEXT_KINDS {
						check_text(ctx, &case, k, s);
						n += 1;
					}
				}
			}
			ctx.count_n("enum:scalar_type_pairs", n);
		});
		if !miri {
			ctx.sample(|| "scalars: all 1,112,064 Unicode scalar values as one-character strings x {Printable, IA5, Teletex, BMP, Universal} x {TryFrom<&str>, TryFrom<String>, FromStr}".to_string());
		}
	}

	// --- 2. byte-level constructors
	let do_bytes = ctx.replay.as_ref().map_or(true, |r| r.workload == "bytes");
	if do_bytes {
		let case = CaseId::new("bytes", 0, 0);
		let step = if miri { 2053 } else { 1 };
		for u in (0..=0xffffu32).step_by(step) {
			check_utf16(ctx, &case, (u as u16).to_be_bytes().to_vec());
		}
		let bset: [u16; 11] = [0xd7ff, 0xd800, 0xdbff, 0xdc00, 0xdfff, 0xe000, 0xfffd, 0xfffe, 0xffff, 0x0000, 0x0041];
		for a in bset {
			for b in bset {
				let mut v = a.to_be_bytes().to_vec();
				v.extend(b.to_be_bytes());
				check_utf16(ctx, &case, v);
			}
		}
		for len in 0..10usize {
			check_utf16(ctx, &case, vec![0x00; len]);
			check_utf16(ctx, &case, (0..len).map(|i| if i % 2 == 0 { 0 } else { 0x41 }).collect());
			check_utf32(ctx, &case, vec![0x00; len]);
			check_utf32(ctx, &case, (0..len).map(|i| if i % 4 == 3 { 0x41 } else { 0 }).collect());
		}
		let step = if miri { 65521 } else { 1 };
		for u in (0..=0x110400u32).step_by(step) {
			check_utf32(ctx, &case, u.to_be_bytes().to_vec());
		}
		for k in 16..32 {
			for d in [-1i64, 0, 1] {
				let u = ((1i64 << k) + d) as u32;
				check_utf32(ctx, &case, u.to_be_bytes().to_vec());
				let mut two = 0x41u32.to_be_bytes().to_vec();
				two.extend(u.to_be_bytes());
				check_utf32(ctx, &case, two);
			}
		}
		check_utf32(ctx, &case, 0xffff_ffffu32.to_be_bytes().to_vec());
		ctx.sample(|| "bytes: from_utf16be on every 16-bit unit, 121 boundary pairs, lengths 0..9; from_utf32be on every value 0..=0x110400, 2^k boundaries, lengths 0..9".to_string());
	}

	// --- 2b. every ordered pair and many triples from a boundary character set, every type (multi-character effects)
	if ctx.replay.as_ref().map_or(true, |r| r.workload == "pairs") {
		let set: Vec<char> = vec![
			'\u{0}', '\u{1f}', ' ', '*', '?', 'A', '\u{7e}', '\u{7f}', '\u{80}', '\u{ff}', '\u{100}', '\u{1ff}', '\u{7ff}', '\u{800}', '\u{d7ff}', '\u{e000}',
			'\u{ff00}', '\u{ff01}', '\u{fffd}', '\u{fffe}', '\u{ffff}', '\u{10000}', '\u{1f600}', '\u{fffff}', '\u{100000}', '\u{10ffff}',
		];
		let set: Vec<char> = if miri { set.into_iter().step_by(5).collect() } else { set };
		let case = CaseId::new("pairs", 0, 0);
		for k in TEXT_KINDS {
			for a in &set {
				for b in &set {
					let s: String = [*a, *b].iter().collect();
					check_text(ctx, &case, k, &s);
					ctx.count("enum:boundary_pairs");
					if !miri {
						let t: String = [*b, 'x', *a, *b].iter().collect();
						check_text(ctx, &case, k, &t);
						ctx.count("enum:boundary_pairs");
					}
				}
			}
		}
	}

	// --- 3. random multi-character strings mixing in- and out-of-alphabet characters
	let do_random = ctx.replay.as_ref().map_or(true, |r| r.workload == "random");
	if do_random {
		let n = if miri { 20 } else { ctx.scale(300_000, 5_000_000) };
		par_for(n, if miri { 1 } else { ctx.threads }, |i| {
			if let Some(r) = &ctx.replay {
				if r.index != i {
					return;
				}
			}
			let case = CaseId::new("random", ctx.seed, i);
			let mut rng = case.rng();
			let kind = *rng.pick(&TEXT_KINDS);
			let len = 1 + rng.below(64) as usize;
			let mut s: Vec<char> = (0..len).map(|_| crate::spec::gen_char(&mut rng, kind)).collect();
			// plant 0..2 characters chosen without regard to the alphabet, at random positions
			for _ in 0..rng.below(3) {
				let pos = rng.below(len as u64) as usize;
				s[pos] = crate::spec::gen_char(&mut rng, StrKind::Utf8);
			}
			let s: String = s.into_iter().collect();
			check_text(ctx, &case, kind, &s);
			ctx.count("eval:random_strings");
			ctx.distinct(fnv64(format!("{:?}{}", kind, s).as_bytes()));
			ctx.sample(|| format!("random: {:?} {:?}", kind, s));
		});
	}

	// --- 4. every accepted character can be serialised into a certificate and decodes identically
	let do_ser = ctx.replay.as_ref().map_or(true, |r| r.workload.starts_with("serialise"));
	if do_ser {
		let mut jobs: Vec<(StrKind, Vec<char>)> = Vec::new();
		for kind in ALL_KINDS {
			let wide = matches!(kind, StrKind::Bmp | StrKind::Universal | StrKind::Utf8);
			if wide && false {
				// quick tier: narrow types completely, wide types on the BMP boundary blocks only
				let mut chars = Vec::new();
				for block in [0u32, 1, 0x7, 0x8, 0xd7, 0xe0, 0xff, 0x100, 0x10ff] {
					chars.extend((block * 256..block * 256 + 256).filter_map(char::from_u32).filter(|c| kind.admits(*c)));
				}
				for ch in chars.chunks(256) {
					jobs.push((kind, ch.to_vec()));
				}
				continue;
			}
			let max = if wide { 0x110000 } else { 0x100 };
			let all: Vec<char> = if miri {
				(0x20..0x60u32).filter_map(char::from_u32).filter(|c| kind.admits(*c)).collect()
			} else {
				(0..max).filter_map(char::from_u32).filter(|c| kind.admits(*c)).collect()
			};
			for ch in all.chunks(256) {
				jobs.push((kind, ch.to_vec()));
			}
		}
		par_for(jobs.len() as u64, if miri { 1 } else { ctx.threads }, |i| {
			if let Some(r) = &ctx.replay {
				if r.index != i {
					return;
				}
			}
			let case = CaseId::new("serialise", 0, i);
			let (kind, chars) = &jobs[i as usize];
			let text: String = chars.iter().collect();
			ctx.count_n("chars_serialised", chars.len() as u64);
			if !check_serialise(ctx, &case, &key, *kind, &text) {
				// bisect to single characters so that the report names the culprit
				for c in chars {
					let s = c.to_string();
					if !check_serialise(ctx, &case, &key, *kind, &s) {
						break;
					}
				}
			}
			ctx.distinct(fnv64(format!("ser{:?}{}", kind, text).as_bytes()));
		});
		// position matters too (trimming, normalising a leading/trailing character): every accepted
		// character alone, first, last and in the middle of a short text
		if !miri {
			let mut pos_jobs: Vec<(StrKind, char)> = Vec::new();
			for kind in ALL_KINDS {
				let mut cs: Vec<char> = (0u32..0x300).filter_map(char::from_u32).collect();
				cs.extend(['\u{7ff}', '\u{800}', '\u{d7ff}', '\u{e000}', '\u{feff}', '\u{fffd}', '\u{ffff}', '\u{10000}', '\u{10ffff}']);
				pos_jobs.extend(cs.into_iter().filter(|c| kind.admits(*c)).map(|c| (kind, c)));
			}
			par_for(pos_jobs.len() as u64, ctx.threads, |i| {
				let case = CaseId::new("serialise-position", 0, i);
				if let Some(r) = &ctx.replay {
					if r.workload != "serialise-position" || r.index != i {
						return;
					}
				}
				let (kind, c) = pos_jobs[i as usize];
				let tys = attr_types();
				for (ti, text) in [format!("{}", c), format!("{}x", c), format!("x{}", c), format!("x{}y", c), format!("{}{}", c, c)].into_iter().enumerate() {
					ctx.count("enum:serialise_positions");
					// the attribute type rotates with character and position, so every string type meets every attribute type
					let ty = tys[(i as usize + ti) % tys.len()].clone();
					if !check_serialise_as(ctx, &case, &key, kind, &text, ty) {
						break;
					}
				}
			});
		}
		// every string type under every attribute type with the texts real names hold
		if !miri {
			let case = CaseId::new("serialise-types", 0, 0);
			for kind in ALL_KINDS {
				for ty in attr_types() {
					for text in ["US", "DE", "Example Org", "example.com", "a", "A1", ""] {
						ctx.count("enum:serialise_types");
						check_serialise_as(ctx, &case, &key, kind, text, ty.clone());
					}
				}
			}
		}
		// empty strings and a long one per kind
		let case = CaseId::new("serialise", 0, u64::MAX);
		for kind in ALL_KINDS {
			check_serialise(ctx, &case, &key, kind, "");
			let long: String = std::iter::repeat('A').take(if miri { 130 } else { 70_000 }).collect();
			check_serialise(ctx, &case, &key, kind, &long);
		}
		ctx.sample(|| format!("serialise: {} chunks of up to 256 alphabet characters, each as a subject attribute (and as DNS/e-mail/URI SAN for IA5)", jobs.len()));
	}
}
