//! C12 – constraints placed in certificates are enforced by independent validators.
//!
//! Chains root -> [intermediates] -> leaf are built with rcgen; OpenSSL X509_verify_cert and
//! webpki verify_for_usage must return the verdict the parameters imply (RFC 5280 section 6).
//! Judge table (which validator is asked about which dimension) is fixed here and documented:
//! webpki does not look at anything in the trust anchor except its name constraints and does not
//! evaluate CA key usage, so those dimensions are judged by OpenSSL alone.
#![cfg(all(feature = "crypto", feature = "ossl"))]

use std::net::IpAddr;

use openssl::x509::X509PurposeId;
use rcgen::Certificate;

use crate::ctx::{par_for, CaseId, Ctx};
use crate::keys::PoolKey;
use crate::ossl::{self, VerifyOpts};
use crate::spec::*;
use crate::util::Rng;

const T: [i64; 10] = [
	1_500_000_000,
	1_550_000_000,
	1_600_000_000,
	1_650_000_000,
	1_700_000_000,
	1_750_000_000,
	1_800_000_000,
	1_850_000_000,
	1_900_000_000,
	1_950_000_000,
];

#[derive(Clone, Debug)]
struct Node {
	is_ca: IsCaSpec,
	ku: u16,
	nc: Option<(Vec<SubtreeSpec>, Vec<SubtreeSpec>)>,
	window: (i64, i64),
	/// list every key usage twice (the same set, as far as the property goes)
	ku_dup: bool,
}

#[derive(Clone, Debug)]
struct ChainSpec {
	root: Node,
	inters: Vec<Node>,
	leaf_sans: Vec<SanSpec>,
	leaf_ekus: Vec<EkuSpec>,
	leaf_window: (i64, i64),
	at: i64,
	/// 0 server auth, 1 client auth
	purpose: u8,
	/// how the window ends are handed to rcgen: 0 whole seconds UTC; 1 with a sub-second part;
	/// 2 windows that are open to the far end (T[9]) end in 2055 (GeneralizedTime); 3 both; 4 as 3 in a non-UTC offset.
	/// The instants (to the second) and therefore the expected verdicts are the same in every flavour.
	tflav: u8,
	/// 0: default key identifiers, no authority key identifier. 1..=4: every issued certificate asks for the
	/// authority key identifier and the CAs use different key-identifier methods down the chain
	/// (SHA-256/384/512, pre-specified). Verdicts do not depend on it.
	kidflav: u8,
	/// issuance route of intermediates and leaf (key pair, SubjectPublicKeyInfo, parsed CSR)
	route: u8,
}

fn kid_for(flav: u8, level: usize) -> KidSpec {
	match (flav as usize + level) % 4 {
		0 => KidSpec::Sha256,
		1 => KidSpec::Sha384,
		2 => KidSpec::Sha512,
		_ => KidSpec::Pre((0..20).map(|i| (i * 7 + level * 31) as u8 ^ 0x5a).collect()),
	}
}

const FAR_END: i64 = 2_700_000_000;

/// purposes 2, 3, 4: extended key usages that are not among the named ones (OpenSSL is not asked about them)
pub const CUSTOM_PURPOSES: [&[u64]; 3] = [&[1, 3, 6, 1, 4, 1, 55555, 1, 1], &[1, 3, 6, 1, 4, 1, 55555, 1, 2], &[1, 2, 3, 4]];

fn tspec(unix: i64, flav: u8, end: bool) -> TimeSpec {
	let unix = if flav >= 2 && end && unix == T[9] { FAR_END } else { unix };
	TimeSpec {
		unix,
		nanos: if flav == 1 || flav >= 3 { if end { 999_999_999 } else { 123_456_789 } } else { 0 },
		offset: if flav == 4 { if end { -34_200 } else { 20_700 } } else { 0 },
	}
}

fn ca_node() -> Node {
	Node {
		is_ca: IsCaSpec::Ca(None),
		ku: 0,
		nc: None,
		window: (T[0], T[9]),
		ku_dup: false,
	}
}

fn base(depth: usize) -> ChainSpec {
	ChainSpec {
		root: ca_node(),
		inters: (0..depth).map(|_| ca_node()).collect(),
		leaf_sans: vec![SanSpec::Dns("www.example.com".into())],
		leaf_ekus: vec![],
		leaf_window: (T[0], T[9]),
		at: T[5],
		purpose: 0,
		tflav: 0,
		kidflav: 0,
		route: 0,
	}
}

/// (expected by OpenSSL's scope, expected by webpki's scope, reasons)
fn expected(c: &ChainSpec) -> (bool, bool, Vec<String>) {
	let mut ossl_ok = true;
	let mut wp_ok = true;
	let mut why = Vec::new();
	let mut fail = |o: bool, w: bool, s: String| {
		if o {
			ossl_ok = false;
		}
		if w {
			wp_ok = false;
		}
		why.push(s);
	};
	let n = c.inters.len();
	// CA flags
	if !matches!(c.root.is_ca, IsCaSpec::Ca(_)) {
		fail(true, false, "root is not a CA".into());
	}
	for (i, x) in c.inters.iter().enumerate() {
		if !matches!(x.is_ca, IsCaSpec::Ca(_)) {
			fail(true, true, format!("intermediate {} is not a CA", i));
		}
	}
	// path length: a CA at position p (root = -1) is followed by (n - 1 - p) intermediates
	if let IsCaSpec::Ca(Some(l)) = c.root.is_ca {
		if (n as u64) > l as u64 {
			fail(true, false, format!("root pathLen {} exceeded by {} intermediates", l, n));
		}
	}
	for (i, x) in c.inters.iter().enumerate() {
		if let IsCaSpec::Ca(Some(l)) = x.is_ca {
			let following = n - 1 - i;
			if (following as u64) > l as u64 {
				fail(true, true, format!("intermediate {} pathLen {} exceeded by {} following", i, l, following));
			}
		}
	}
	// validity
	if c.at < c.root.window.0 || c.at > c.root.window.1 {
		fail(true, false, "root outside validity".into());
	}
	for (i, x) in c.inters.iter().enumerate() {
		if c.at < x.window.0 || c.at > x.window.1 {
			fail(true, true, format!("intermediate {} outside validity", i));
		}
	}
	if c.at < c.leaf_window.0 || c.at > c.leaf_window.1 {
		fail(true, true, "leaf outside validity".into());
	}
	// CA key usage
	if c.root.ku != 0 && c.root.ku & (1 << 5) == 0 {
		fail(true, false, "root key usage lacks keyCertSign".into());
	}
	for (i, x) in c.inters.iter().enumerate() {
		if x.ku != 0 && x.ku & (1 << 5) == 0 {
			fail(true, false, format!("intermediate {} key usage lacks keyCertSign", i));
		}
	}
	// name constraints (root and intermediates) against the leaf names
	for (who, node) in std::iter::once(("root".to_string(), &c.root)).chain(c.inters.iter().enumerate().map(|(i, x)| (format!("intermediate {}", i), x))) {
		if let Some((perm, excl)) = &node.nc {
			for san in &c.leaf_sans {
				let matches = |t: &SubtreeSpec| -> Option<bool> {
					match (t, san) {
						(SubtreeSpec::Dns(c), SanSpec::Dns(n)) => Some(dns_within(n, c)),
						(SubtreeSpec::Ip(c), SanSpec::Ip(ip)) => {
							let a: Vec<u8> = match ip {
								IpAddr::V4(a) => a.octets().to_vec(),
								IpAddr::V6(a) => a.octets().to_vec(),
							};
							if a.len() != c.addr.len() {
								None
							} else {
								let m = c.mask();
								Some((0..a.len()).all(|i| a[i] & m[i] == c.addr[i] & m[i]))
							}
						},
						_ => None,
					}
				};
				let same_kind: Vec<bool> = perm.iter().filter_map(|t| matches(t)).collect();
				if !same_kind.is_empty() && !same_kind.iter().any(|x| *x) {
					fail(true, true, format!("{}: leaf name {:?} outside permitted subtrees", who, san));
				}
				if excl.iter().filter_map(|t| matches(t)).any(|x| x) {
					fail(true, true, format!("{}: leaf name {:?} inside excluded subtree", who, san));
				}
			}
		}
	}
	// purpose
	if c.purpose >= 2 {
		// a custom purpose (webpki `KeyUsage::required_if_present`, applied to every certificate of the path:
		// the CAs here carry no extended key usages): a leaf that lists purposes must list exactly that OID
		let want = EkuSpec::Other(CUSTOM_PURPOSES[(c.purpose - 2) as usize].to_vec());
		if !c.leaf_ekus.is_empty() && !c.leaf_ekus.contains(&want) {
			fail(false, true, "custom purpose not among the leaf's extended key usages".into());
		}
	} else if !c.leaf_ekus.is_empty() {
		let want = if c.purpose == 0 { EkuSpec::ServerAuth } else { EkuSpec::ClientAuth };
		if !c.leaf_ekus.contains(&want) {
			fail(true, true, "requested purpose not among the leaf's extended key usages".into());
		}
	}
	(ossl_ok, wp_ok, why)
}

fn dns_within(name: &str, constraint: &str) -> bool {
	let n = name.to_ascii_lowercase();
	let c = constraint.to_ascii_lowercase();
	n == c || n.ends_with(&format!(".{}", c))
}

struct Built {
	root: Certificate,
	inters: Vec<Certificate>,
	leaf: Certificate,
}

fn build(c: &ChainSpec, keys: &[&PoolKey], rng: &mut Rng) -> Result<Built, String> {
	let mk = |node: &Node, cn: &str, level: usize| -> ParamSpec {
		let mut s = ParamSpec::minimal();
		if c.kidflav != 0 {
			s.kid = kid_for(c.kidflav, level);
			s.use_aki = level > 0;
		}
		s.subject = vec![AttrSpec {
			ty: DnTy::Cn,
			kind: StrKind::Utf8,
			text: cn.to_string(),
		}];
		s.is_ca = node.is_ca.clone();
		s.ku = node.ku;
		s.nc = node.nc.clone();
		s.not_before = tspec(node.window.0, c.tflav, false);
		s.not_after = tspec(node.window.1, c.tflav, true);
		s
	};
	let dup = |node: &Node, mut p: rcgen::CertificateParams| -> rcgen::CertificateParams {
		if node.ku_dup {
			let d = p.key_usages.clone();
			p.key_usages.extend(d);
		}
		p
	};
	let kroot = *rng.pick(keys);
	let root = dup(&c.root, mk(&c.root, "verif root ca", 0).to_rcgen(None)).self_signed(&kroot.kp).map_err(|e| format!("root: {}", e))?;
	let mut inters = Vec::new();
	let mut signer_cert = &root;
	let mut signer_key = kroot;
	let mut ikeys = Vec::new();
	for (i, n) in c.inters.iter().enumerate() {
		ikeys.push(*rng.pick(keys));
		let k = ikeys[i];
		let cert = crate::mon::certs::issue_via(c.route as u64, dup(n, mk(n, &format!("verif intermediate ca {}", i), i + 1).to_rcgen(None)), k, signer_cert, &signer_key.kp)
			.map_err(|e| format!("intermediate {}: {}", i, e))?;
		inters.push(cert);
		signer_cert = inters.last().unwrap();
		signer_key = k;
	}
	// borrowck: recompute signer refs after pushing
	let (signer_cert, signer_key) = match inters.last() {
		Some(c) => (c, ikeys[ikeys.len() - 1]),
		None => (&root, kroot),
	};
	let kleaf = *rng.pick(keys);
	let mut l = ParamSpec::minimal();
	l.subject = vec![AttrSpec {
		ty: DnTy::Cn,
		kind: StrKind::Utf8,
		text: "verif leaf (not a host name)".into(),
	}];
	l.sans = c.leaf_sans.clone();
	l.ekus = c.leaf_ekus.clone();
	l.not_before = tspec(c.leaf_window.0, c.tflav, false);
	l.not_after = tspec(c.leaf_window.1, c.tflav, true);
	if c.kidflav != 0 {
		l.kid = kid_for(c.kidflav, c.inters.len() + 1);
		l.use_aki = true;
	}
	let leaf = crate::mon::certs::issue_via(c.route as u64 + 1, l.to_rcgen(None), kleaf, signer_cert, &signer_key.kp).map_err(|e| format!("leaf: {}", e))?;
	let _ = signer_key;
	Ok(Built { root, inters, leaf })
}

fn cidr(addr: &[u8], prefix: u8) -> SubtreeSpec {
	SubtreeSpec::Ip(CidrSpec {
		addr: addr.to_vec(),
		prefix,
		ctor: 0,
	})
}

/// flip bit `bit` (0 = most significant) of an address
fn flip(addr: &[u8], bit: usize) -> Vec<u8> {
	let mut a = addr.to_vec();
	a[bit / 8] ^= 0x80 >> (bit % 8);
	a
}

fn ip_of(a: &[u8]) -> IpAddr {
	if a.len() == 4 {
		IpAddr::from([a[0], a[1], a[2], a[3]])
	} else {
		let mut b = [0u8; 16];
		b.copy_from_slice(a);
		IpAddr::from(b)
	}
}

/// enumerated single-dimension cases
fn directed() -> Vec<(String, ChainSpec)> {
	let mut v: Vec<(String, ChainSpec)> = Vec::new();
	// CA flag variants on intermediate and root
	for (name, ca) in [("ca", IsCaSpec::Ca(None)), ("explicit-no-ca", IsCaSpec::ExplicitNo), ("no-ca", IsCaSpec::No)] {
		let mut c = base(1);
		c.inters[0].is_ca = ca.clone();
		v.push((format!("ca-flag:intermediate:{}", name), c));
		let mut c = base(0);
		c.root.is_ca = ca.clone();
		v.push((format!("ca-flag:root:{}", name), c));
		let mut c = base(2);
		c.inters[1].is_ca = ca;
		v.push((format!("ca-flag:intermediate2:{}", name), c));
	}
	// path length x depth
	for depth in 0..=3usize {
		for (pos_name, pos) in [("root", -1i32), ("int0", 0), ("int1", 1)] {
			if pos >= depth as i32 {
				continue;
			}
			for pl in [None, Some(0u8), Some(1), Some(2)] {
				let mut c = base(depth);
				if pos < 0 {
					c.root.is_ca = IsCaSpec::Ca(pl);
				} else {
					c.inters[pos as usize].is_ca = IsCaSpec::Ca(pl);
				}
				v.push((format!("pathlen:depth{}:{}:{:?}", depth, pos_name, pl), c));
			}
		}
	}
	// key-identifier methods down the chain x issuance route (authority key identifiers requested everywhere)
	for depth in 0..=2usize {
		for flav in 1..=4u8 {
			for route in 0..3u8 {
				let mut c = base(depth);
				c.kidflav = flav;
				c.route = route;
				v.push((format!("keyid:depth{}:flavour{}:route{}", depth, flav, route), c));
			}
		}
	}
	// validity windows
	for (who, idx) in [("leaf", 0usize), ("intermediate", 1), ("root", 2)] {
		for (tn, at) in [("before", T[1]), ("inside", T[5]), ("after", T[8]), ("at-start", T[3]), ("at-end", T[6]), ("second-before-start", T[3] - 1), ("second-after-end", T[6] + 1)] {
			let mut c = base(1);
			match idx {
				0 => c.leaf_window = (T[3], T[6]),
				1 => c.inters[0].window = (T[3], T[6]),
				_ => c.root.window = (T[3], T[6]),
			}
			c.at = at;
			for flav in 0..5u8 {
				let mut c = c.clone();
				c.tflav = flav;
				v.push((format!("validity:{}:{}:time-flavour{}", who, tn, flav), c));
			}
		}
	}
	// DNS name constraints
	for where_ in ["intermediate", "root"] {
		for (kind, permitted) in [("permitted", true), ("excluded", false)] {
			for (ln, leaf_name) in [
				("same", "example.com"),
				("subdomain", "www.example.com"),
				("deep", "a.b.example.com"),
				("sibling", "example.org"),
				("suffix-not-subdomain", "badexample.com"),
				("parent", "com"),
				("case", "WWW.Example.COM"),
			] {
				let mut c = base(1);
				let t = vec![SubtreeSpec::Dns("example.com".into())];
				let nc = if permitted { (t, vec![]) } else { (vec![], t) };
				if where_ == "root" {
					c.root.nc = Some(nc);
				} else {
					c.inters[0].nc = Some(nc);
				}
				c.leaf_sans = vec![SanSpec::Dns(leaf_name.into())];
				v.push((format!("nc-dns:{}:{}:{}", where_, kind, ln), c));
			}
		}
	}
	// both lists at once
	{
		let mut c = base(1);
		c.inters[0].nc = Some((vec![SubtreeSpec::Dns("example.com".into())], vec![SubtreeSpec::Dns("bad.example.com".into())]));
		c.leaf_sans = vec![SanSpec::Dns("x.bad.example.com".into())];
		v.push(("nc-dns:permitted+excluded:inside-excluded".into(), c.clone()));
		c.leaf_sans = vec![SanSpec::Dns("good.example.com".into())];
		v.push(("nc-dns:permitted+excluded:inside-permitted".into(), c));
	}
	// IP subnets: every listed prefix, an address inside, one differing in the last masked bit, one in the first free bit
	for (fam, addr) in [("v4", vec![192u8, 168, 17, 5]), ("v6", vec![0x20, 0x01, 0x0d, 0xb8, 0, 0, 0x12, 0x34, 0, 0, 0, 0, 0xab, 0xcd, 0, 0x17])] {
		let width = addr.len() * 8;
		let prefixes: Vec<u8> = if width == 32 { vec![0, 1, 8, 23, 24, 25, 31, 32] } else { vec![0, 1, 64, 65, 127, 128] };
		for p in prefixes {
			for (kind, permitted) in [("permitted", true), ("excluded", false)] {
				let mut cands: Vec<(String, Vec<u8>)> = vec![("same".into(), addr.clone())];
				if p > 0 {
					cands.push(("last-masked-bit-flipped".into(), flip(&addr, p as usize - 1)));
					cands.push(("first-bit-flipped".into(), flip(&addr, 0)));
				}
				if (p as usize) < width {
					cands.push(("first-free-bit-flipped".into(), flip(&addr, p as usize)));
					cands.push(("last-bit-flipped".into(), flip(&addr, width - 1)));
				}
				for (an, a) in cands {
					let mut c = base(1);
					let t = vec![cidr(&addr, p)];
					c.inters[0].nc = Some(if permitted { (t, vec![]) } else { (vec![], t) });
					c.leaf_sans = vec![SanSpec::Ip(ip_of(&a))];
					v.push((format!("nc-ip:{}:/{}:{}:{}", fam, p, kind, an), c));
				}
			}
		}
	}
	// leaf EKU sets x purpose
	let eku_sets: Vec<Vec<EkuSpec>> = vec![
		vec![],
		vec![EkuSpec::ServerAuth],
		vec![EkuSpec::ClientAuth],
		vec![EkuSpec::ServerAuth, EkuSpec::ClientAuth],
		vec![EkuSpec::CodeSigning],
		vec![EkuSpec::EmailProtection, EkuSpec::ClientAuth],
		vec![EkuSpec::TimeStamping, EkuSpec::OcspSigning],
		vec![EkuSpec::CodeSigning, EkuSpec::ServerAuth],
	];
	for (i, set) in eku_sets.iter().enumerate() {
		for purpose in 0..2u8 {
			let mut c = base(1);
			c.leaf_ekus = set.clone();
			c.purpose = purpose;
			v.push((format!("eku:set{}:purpose{}", i, purpose), c));
		}
	}
	// custom purposes: same-shaped lists that differ only in the OID, asked for each of the three
	let other = |k: usize| EkuSpec::Other(CUSTOM_PURPOSES[k].to_vec());
	for round in 0..3 {
		for k in 0..3usize {
			for (si, set) in [vec![other(k)], vec![EkuSpec::ClientAuth, other(k)], vec![other(k), other((k + 1) % 3)], vec![]].into_iter().enumerate() {
				for purpose in 2..5u8 {
					let mut c = base(1);
					c.leaf_ekus = set.clone();
					c.purpose = purpose;
					v.push((format!("eku-custom:round{}:oid{}:set{}:purpose{}", round, k, si, purpose), c));
				}
			}
		}
	}
	// CA key usage sets with / without keyCertSign
	for ku in [0u16, 1 << 5, (1 << 5) | (1 << 6), 1 << 6, 1, 1 | (1 << 6), 0b1_1101_1111, 0b1_1111_1111, 1 << 4, (1 << 5) | 1] {
		let mut c = base(1);
		c.inters[0].ku = ku;
		v.push((format!("ca-ku:intermediate:{:#011b}", ku), c));
		let mut c = base(0);
		c.root.ku = ku;
		v.push((format!("ca-ku:root:{:#011b}", ku), c));
		let mut c = base(1);
		c.inters[0].ku = ku;
		c.inters[0].ku_dup = true;
		v.push((format!("ca-ku:intermediate-listed-twice:{:#011b}", ku), c));
	}
	v
}

fn random_case(rng: &mut Rng) -> ChainSpec {
	let depth = 1 + rng.below(3) as usize;
	let mut c = base(depth);
	// each dimension judged by both validators is perturbed with some probability
	if rng.chance(1, 4) {
		let i = rng.below(depth as u64) as usize;
		c.inters[i].is_ca = if rng.chance(1, 2) { IsCaSpec::ExplicitNo } else { IsCaSpec::No };
	}
	if rng.chance(1, 3) {
		let i = rng.below(depth as u64) as usize;
		if matches!(c.inters[i].is_ca, IsCaSpec::Ca(_)) {
			c.inters[i].is_ca = IsCaSpec::Ca(Some(rng.below(3) as u8));
		}
	}
	c.tflav = if rng.chance(1, 2) { 0 } else { 1 + rng.below(4) as u8 };
	c.kidflav = if rng.chance(1, 2) { 0 } else { 1 + rng.below(4) as u8 };
	c.route = rng.below(3) as u8;
	if rng.chance(1, 3) {
		c.leaf_window = (T[2], T[7]);
		c.inters[0].window = (T[1], T[8]);
		c.at = *rng.pick(&[T[0] + 5, T[1] + 5, T[5], T[7] + 5, T[8] + 5]);
	}
	if rng.chance(1, 2) {
		let i = rng.below(depth as u64) as usize;
		let dns = rng.chance(1, 2);
		let t = if dns {
			vec![SubtreeSpec::Dns(rng.pick(&["example.com", "example.org", "sub.example.com"]).to_string())]
		} else {
			let p = *rng.pick(&[8u8, 16, 24, 32]);
			vec![cidr(&[10, 1, 2, 3], p)]
		};
		c.inters[i].nc = Some(if rng.chance(1, 2) { (t, vec![]) } else { (vec![], t) });
		c.leaf_sans = if dns {
			vec![SanSpec::Dns(rng.pick(&["www.example.com", "example.org", "x.sub.example.com", "other.net"]).to_string())]
		} else {
			{
				let cands: [[u8; 4]; 5] = [[10, 1, 2, 3], [10, 1, 2, 4], [10, 1, 9, 9], [10, 200, 0, 1], [11, 1, 2, 3]];
				vec![SanSpec::Ip(ip_of(&rng.pick(&cands)[..]))]
			}
		};
	}
	if rng.chance(1, 3) {
		c.leaf_ekus = rng.pick(&[vec![EkuSpec::ServerAuth], vec![EkuSpec::ClientAuth], vec![EkuSpec::CodeSigning], vec![EkuSpec::ServerAuth, EkuSpec::ClientAuth]]).clone();
		c.purpose = rng.below(2) as u8;
		if rng.chance(1, 4) {
			// a custom purpose, with a leaf that has it, has another one of the same shape, or has none
			c.purpose = 2 + rng.below(3) as u8;
			let k = rng.below(3) as usize;
			c.leaf_ekus = match rng.below(4) {
				0 => vec![],
				1 => vec![EkuSpec::Other(CUSTOM_PURPOSES[k].to_vec())],
				2 => vec![EkuSpec::ClientAuth, EkuSpec::Other(CUSTOM_PURPOSES[k].to_vec())],
				_ => vec![EkuSpec::Other(CUSTOM_PURPOSES[k].to_vec()), EkuSpec::ServerAuth],
			};
		}
	}
	c
}

pub fn run(ctx: &Ctx, pool: &[PoolKey]) {
	// validators must support the algorithms: P-256, P-384, Ed25519, RSA (webpki's ring provider has no P-521)
	let keys: Vec<&PoolKey> = pool.iter().filter(|k| !k.is_remote() && ossl::webpki_supports(k.sig) && !k.label.contains("4096") && !k.label.contains("3072")).collect();
	let dir = directed();
	let n_random = ctx.scale(6_000, 120_000);
	let total = dir.len() as u64 + n_random;
	par_for(total, ctx.threads, |i| {
		let (wl, idx) = if (i as usize) < dir.len() { ("directed", i) } else { ("random", i - dir.len() as u64) };
		if let Some(r) = &ctx.replay {
			if r.workload != wl || r.index != idx {
				return;
			}
		}
		let case = CaseId::new(wl, ctx.seed, idx);
		let mut rng = case.rng();
		let (label, spec) = if wl == "directed" { dir[idx as usize].clone() } else { ("random".to_string(), random_case(&mut rng)) };
		let (exp_ossl, exp_wp, why) = expected(&spec);
		let text = format!("{} expected(openssl)={} expected(webpki)={} reasons={:?} chain={:?}", label, exp_ossl, exp_wp, why, spec);
		let built = match crate::guard(|| build(&spec, &keys, &mut rng)) {
			Err(p) => return ctx.violation("c12:panic", &case, &text, &p),
			Ok(Err(e)) => return ctx.violation("c12:refused", &case, &text, &e),
			Ok(Ok(b)) => b,
		};
		let dim = label.split(':').next().unwrap_or("random").to_string();
		ctx.count(&format!("eval:chains:{}", dim));
		if wl == "directed" {
			ctx.count("dist:directed");
		} else {
			ctx.distinct(crate::util::fnv64(format!("{:?}", spec).as_bytes()));
		}
		ctx.sample(|| crate::util::clip(&text, 700));
		let inters: Vec<Vec<u8>> = built.inters.iter().rev().map(|c| c.der().to_vec()).collect();
		let trust = vec![built.root.der().to_vec()];
		// OpenSSL
		let mut o = VerifyOpts::at(spec.at);
		o.purpose = match spec.purpose {
			0 => Some(X509PurposeId::SSL_SERVER),
			1 => Some(X509PurposeId::SSL_CLIENT),
			_ => None,
		};
		// OpenSSL counts the notAfter second itself as expired (X509_cmp_time never returns "equal"), RFC 5280
		// counts it as valid: that instant is judged by webpki only.
		let on_end = spec.at == spec.leaf_window.1 || spec.at == spec.root.window.1 || spec.inters.iter().any(|x| x.window.1 == spec.at);
		match ossl::openssl_verify(built.leaf.der(), &inters, &trust, &o) {
			Err(e) => ctx.note(format!("openssl harness error: {}", e)),
			Ok(_) if on_end => ctx.count("openssl_not_asked_at_notafter_instant"),
			Ok(v) => {
				ctx.count(if v.is_ok() { "openssl_accepts" } else { "openssl_rejects" });
				if v.is_ok() != exp_ossl {
					ctx.violation(
						&format!("c12:openssl:{}:{}", dim, if exp_ossl { "rejects-valid" } else { "accepts-invalid" }),
						&case,
						&text,
						&format!("OpenSSL verdict {:?}, parameters imply {}", v, if exp_ossl { "accept" } else { "reject" }),
					);
				}
			},
		}
		// webpki
		match ossl::webpki_verify(built.leaf.der(), &inters, &trust, spec.at, spec.purpose) {
			Err(e) => ctx.note(format!("webpki harness error: {}", e)),
			Ok(v) => {
				ctx.count(if v.is_ok() { "webpki_accepts" } else { "webpki_rejects" });
				if v.is_ok() != exp_wp {
					ctx.violation(
						&format!("c12:webpki:{}:{}", dim, if exp_wp { "rejects-valid" } else { "accepts-invalid" }),
						&case,
						&text,
						&format!("webpki verdict {:?}, parameters imply {}", v, if exp_wp { "accept" } else { "reject" }),
					);
				}
			},
		}
	});
}
