//! Small import workload that runs in every configuration, meant for Miri (C10 / C17 layer):
//! generate with a remote signer -> import -> compare -> mutate -> import -> re-issue.

use rcgen::CertificateParams;

use crate::ctx::{CaseId, Ctx};
use crate::mutate;
use crate::spec::*;
use crate::x509;

pub fn run(ctx: &Ctx) {
	let key = crate::dummy_key(3);
	let n = if cfg!(miri) { 10 } else { 400 };
	let mut corpus: Vec<Vec<u8>> = Vec::new();
	for i in 0..n {
		let case = CaseId::new("miri-import", ctx.seed, i);
		let mut rng = case.rng();
		let mut spec = gen_params(&mut rng);
		spec.serial = Some(vec![1 + (i % 100) as u8, 3]);
		if !matches!(spec.kid, KidSpec::Pre(_)) {
			spec.kid = KidSpec::Pre(rng.bytes(20));
		}
		// import needs an SKI in the crypto-less build
		if spec.is_ca == IsCaSpec::No {
			spec.is_ca = IsCaSpec::ExplicitNo;
		}
		if spec.sans.len() > 4 {
			spec.sans.truncate(4);
		}
		let text = format!("{:?}", spec);
		ctx.count("eval:generated");
		let cert = match crate::guard(|| spec.to_rcgen(None).self_signed(&key)) {
			Ok(Ok(c)) => c,
			other => {
				ctx.violation("miri-import:generation", &case, &text, &format!("{:?}", other.map(|r| r.map(|_| ()))));
				continue;
			},
		};
		corpus.push(cert.der().to_vec());
		match crate::guard(|| CertificateParams::from_ca_cert_der(cert.der())) {
			Err(p) => ctx.violation("miri-import:import-panic", &case, &text, &p),
			Ok(Err(e)) => ctx.violation("miri-import:import-refused", &case, &text, &e.to_string()),
			Ok(Ok(imp)) => {
				ctx.count("eval:imported");
				if imp.distinguished_name != name_to_rcgen(&spec.subject) || ku_mask_of(&imp.key_usages) != spec.ku {
					ctx.violation("miri-import:fields-differ", &case, &text, "subject or key usages differ after import");
				}
				match crate::guard(|| imp.self_signed(&key)) {
					Ok(Ok(again)) => {
						let a = x509::parse_certificate(cert.der()).map(|v| v.subject.raw);
						let b = x509::parse_certificate(again.der()).map(|v| v.subject.raw);
						if a != b {
							ctx.violation("miri-import:reissue-differs", &case, &text, "subject bytes differ after import + re-issue");
						}
						ctx.count("eval:reissued");
					},
					other => ctx.violation("miri-import:reissue", &case, &text, &format!("{:?}", other.map(|r| r.map(|_| ())))),
				}
			},
		}
		ctx.distinct(spec.hash());
		ctx.sample(|| crate::util::clip(&text, 400));
	}
	// mutants of the generated certificates through the import parser
	let donors: Vec<Vec<mutate::Node>> = corpus.iter().filter_map(|d| mutate::parse_tree(d, 0)).collect();
	let m = if cfg!(miri) { 40 } else { 20_000 };
	for i in 0..m {
		let case = CaseId::new("miri-import-mutants", ctx.seed, i);
		let mut rng = case.rng();
		if corpus.is_empty() {
			break;
		}
		let base = &corpus[(i % corpus.len() as u64) as usize];
		let (mutant, desc) = mutate::mutant(&mut rng, base, &donors);
		ctx.count("eval:mutants_offered");
		match crate::guard(|| CertificateParams::from_ca_cert_der(&pki_types::CertificateDer::from(mutant.clone()))) {
			Err(p) => ctx.violation("miri-import:mutant-panic", &case, &format!("{} -> {}", desc, crate::util::hex(&mutant)), &p),
			Ok(Ok(imp)) => {
				ctx.count("eval:mutants_accepted");
				if let Err(p) = crate::guard(|| imp.self_signed(&key).map(|c| c.der().len())) {
					ctx.violation("miri-import:mutant-reissue-panic", &case, &format!("{} -> {}", desc, crate::util::hex(&mutant)), &p);
				}
			},
			Ok(Err(_)) => {},
		}
	}
}
