//! C10 – the public API never panics: untrusted bytes and constructible parameters.
//!
//! The monitor is the unwind observer (`guard`) plus, at process level, ./check watching for
//! shards that die from a signal. (a) every parsing entry point is fed random bytes and
//! structure-aware mutants of a corpus made in the run; whatever a parser ACCEPTS is pushed on
//! through the generation functions, because imported values are constructible values too.
//! (b) every generation entry point is fed hostile parameter values.
#![cfg(all(feature = "crypto", feature = "ossl"))]

use std::str::FromStr;
use std::sync::atomic::{AtomicU64, Ordering};

use pki_types::{
	CertificateDer, CertificateSigningRequestDer, PrivateKeyDer, PrivatePkcs1KeyDer, PrivatePkcs8KeyDer, PrivateSec1KeyDer,
};
use rcgen::string::{BmpString, Ia5String, PrintableString, TeletexString, UniversalString};
use rcgen::{
	Attribute, BasicConstraints, Certificate, CertificateParams, CertificateRevocationListParams, CertificateSigningRequestParams,
	CidrSubnet, CrlDistributionPoint, CrlIssuingDistributionPoint, CrlScope, CustomExtension, DistinguishedName, DnType, DnValue,
	ExtendedKeyUsagePurpose, GeneralSubtree, IsCa, KeyIdMethod, KeyPair, KeyUsagePurpose, NameConstraints, RemoteKeyPair,
	RevocationReason, RevokedCertParams, SanType, SerialNumber, SignatureAlgorithm, SubjectPublicKeyInfo,
};
use time::{Date, Month, OffsetDateTime, PrimitiveDateTime, Time, UtcOffset};

use crate::ctx::{par_for, CaseId, Ctx};
use crate::keys::rcgen_alg;
use crate::mon::keymon::{all_sigalgs, base_keys};
use crate::mutate;
use crate::ossl;
use crate::pemx;
use crate::spec::*;
use crate::util::{fnv64, hex, Rng};

/// per-thread "currently executing" slots for the call-duration watchdog
pub struct Watch {
	slots: Vec<(AtomicU64, AtomicU64)>,
}

impl Watch {
	pub fn new(n: usize) -> Watch {
		Watch {
			slots: (0..n + 64).map(|_| (AtomicU64::new(0), AtomicU64::new(0))).collect(),
		}
	}
	fn now_ms() -> u64 {
		std::time::SystemTime::now().duration_since(std::time::UNIX_EPOCH).map(|d| d.as_millis() as u64).unwrap_or(0)
	}
	pub fn enter(&self, slot: usize, case: u64) {
		self.slots[slot % self.slots.len()].1.store(case, Ordering::Relaxed);
		self.slots[slot % self.slots.len()].0.store(Self::now_ms(), Ordering::Relaxed);
	}
	pub fn leave(&self, slot: usize) {
		self.slots[slot % self.slots.len()].0.store(0, Ordering::Relaxed);
	}
	/// longest running call: (ms, case)
	pub fn worst(&self) -> (u64, u64) {
		let now = Self::now_ms();
		let mut w = (0, 0);
		for (t, c) in &self.slots {
			let t0 = t.load(Ordering::Relaxed);
			if t0 != 0 && now.saturating_sub(t0) > w.0 {
				w = (now - t0, c.load(Ordering::Relaxed));
			}
		}
		w
	}
}

thread_local! {
	static SLOT: std::cell::Cell<usize> = std::cell::Cell::new(usize::MAX);
}
static NEXT_SLOT: AtomicU64 = AtomicU64::new(0);

fn my_slot() -> usize {
	SLOT.with(|s| {
		if s.get() == usize::MAX {
			s.set(NEXT_SLOT.fetch_add(1, Ordering::Relaxed) as usize);
		}
		s.get()
	})
}

struct Env {
	key: KeyPair,
	ca: Certificate,
	good_csr: Vec<u8>,
	algs: Vec<&'static SignatureAlgorithm>,
	watch: Watch,
}

/// class of an entry point + where it panicked => stable violation signature
fn report(ctx: &Ctx, case: &CaseId, entry: &str, input_text: &str, panic: &str) {
	let loc = panic.rsplit(" @ ").next().unwrap_or("?");
	ctx.violation(&format!("c10:{}:{}", entry, loc), case, input_text, panic);
}

/// run one API call under the unwind observer and the watchdog
fn call<T>(ctx: &Ctx, env: &Env, case: &CaseId, entry: &str, input_text: &dyn Fn() -> String, f: impl FnOnce() -> T) -> Option<T> {
	let slot = my_slot();
	env.watch.enter(slot, case.index);
	let r = crate::guard(f);
	env.watch.leave(slot);
	ctx.count("eval:api_calls");
	match r {
		Ok(v) => Some(v),
		Err(p) => {
			report(ctx, case, entry, &input_text(), &p);
			None
		},
	}
}

// ------------------------------------------------------------------ (a) parsers

fn use_params(ctx: &Ctx, env: &Env, case: &CaseId, entry: &str, txt: &dyn Fn() -> String, p: CertificateParams) {
	// an imported value is a constructible value: generation from it must return Ok or Err
	let e = format!("{}->self_signed", entry);
	let p2 = p.clone();
	if let Some(Ok(c)) = call(ctx, env, case, &e, txt, || p2.self_signed(&env.key)) {
		let _ = call(ctx, env, case, &format!("{}->accessors", entry), txt, || (c.pem().len(), c.key_identifier().len(), format!("{:?}", c).len()));
	}
	let e = format!("{}->signed_by", entry);
	let p3 = p.clone();
	let _ = call(ctx, env, case, &e, txt, || p3.signed_by(&env.key, &env.ca, &env.key).map(|c| c.der().len()));
	let e = format!("{}->serialize_request", entry);
	let mut p4 = p;
	p4.serial_number = None;
	p4.is_ca = IsCa::NoCa;
	p4.name_constraints = None;
	let _ = call(ctx, env, case, &e, txt, || p4.serialize_request(&env.key).map(|c| c.der().len()));
}

fn use_key(ctx: &Ctx, env: &Env, case: &CaseId, entry: &str, txt: &dyn Fn() -> String, kp: KeyPair) {
	let e = format!("{}->use", entry);
	let _ = call(ctx, env, case, &e, txt, || {
		let a = kp.public_key_der().len() + kp.public_key_pem().len() + kp.public_key_raw().len();
		let b = format!("{:?} {:?}", kp, kp.algorithm()).len();
		let c = kp.serialize_der().len() + kp.serialized_der().len() + kp.serialize_pem().len();
		let d = CertificateParams::default().self_signed(&kp).map(|c| c.der().len());
		let e = CertificateParams::default().serialize_request(&kp).map(|c| c.der().len());
		(a, b, c, d.is_ok(), e.is_ok(), kp.is_compatible(kp.algorithm()), kp.compatible_algs().count())
	});
}

fn parse_der_input(ctx: &Ctx, env: &Env, case: &CaseId, kind: &str, bytes: &[u8]) {
	let txt = || format!("{} input={}", kind, hex(bytes));
	match kind {
		"cert" => {
			if let Some(Ok(p)) = call(ctx, env, case, "from_ca_cert_der", &txt, || CertificateParams::from_ca_cert_der(&CertificateDer::from(bytes.to_vec()))) {
				ctx.count("parser_accepted:cert");
				use_params(ctx, env, case, "from_ca_cert_der", &txt, p);
			}
		},
		"csr" => {
			if let Some(Ok(p)) = call(ctx, env, case, "csr_from_der", &txt, || {
				CertificateSigningRequestParams::from_der(&CertificateSigningRequestDer::from(bytes.to_vec()))
			}) {
				ctx.count("parser_accepted:csr");
				let _ = call(ctx, env, case, "csr_from_der->debug", &txt, || format!("{:?} {:?}", p, p.public_key.algorithm()).len());
				let _ = call(ctx, env, case, "csr_from_der->signed_by", &txt, || p.signed_by(&env.ca, &env.key).map(|c| c.der().len()));
			}
		},
		"spki" => {
			if let Some(Ok(s)) = call(ctx, env, case, "spki_from_der", &txt, || SubjectPublicKeyInfo::from_der(bytes)) {
				ctx.count("parser_accepted:spki");
				let _ = call(ctx, env, case, "spki_from_der->signed_by", &txt, || {
					CertificateParams::default().signed_by(&s, &env.ca, &env.key).map(|c| c.der().len() + format!("{:?}", s).len())
				});
			}
		},
		_ => {
			// private keys: every loader
			if let Some(Ok(k)) = call(ctx, env, case, "key_try_from_slice", &txt, || KeyPair::try_from(bytes)) {
				ctx.count("parser_accepted:key");
				use_key(ctx, env, case, "key_try_from_slice", &txt, k);
			}
			if let Some(Ok(k)) = call(ctx, env, case, "key_try_from_vec", &txt, || KeyPair::try_from(bytes.to_vec())) {
				use_key(ctx, env, case, "key_try_from_vec", &txt, k);
			}
			let p8 = PrivatePkcs8KeyDer::from(bytes.to_vec());
			if let Some(Ok(k)) = call(ctx, env, case, "key_try_from_pkcs8", &txt, || KeyPair::try_from(&p8)) {
				use_key(ctx, env, case, "key_try_from_pkcs8", &txt, k);
			}
			let variants: Vec<(&str, PrivateKeyDer<'static>)> = vec![
				("pkcs8", PrivateKeyDer::Pkcs8(PrivatePkcs8KeyDer::from(bytes.to_vec()))),
				("pkcs1", PrivateKeyDer::Pkcs1(PrivatePkcs1KeyDer::from(bytes.to_vec()))),
				("sec1", PrivateKeyDer::Sec1(PrivateSec1KeyDer::from(bytes.to_vec()))),
			];
			for (vn, v) in &variants {
				if let Some(Ok(k)) = call(ctx, env, case, &format!("key_try_from_privatekeyder:{}", vn), &txt, || KeyPair::try_from(v)) {
					use_key(ctx, env, case, "key_try_from_privatekeyder", &txt, k);
				}
				for alg in &env.algs {
					if let Some(Ok(k)) = call(ctx, env, case, &format!("from_der_and_sign_algo:{}", vn), &txt, || KeyPair::from_der_and_sign_algo(v, alg)) {
						use_key(ctx, env, case, "from_der_and_sign_algo", &txt, k);
					}
				}
			}
			for alg in &env.algs {
				if let Some(Ok(k)) = call(ctx, env, case, "from_pkcs8_der_and_sign_algo", &txt, || KeyPair::from_pkcs8_der_and_sign_algo(&p8, alg)) {
					use_key(ctx, env, case, "from_pkcs8_der_and_sign_algo", &txt, k);
				}
			}
		},
	}
}

fn parse_pem_input(ctx: &Ctx, env: &Env, case: &CaseId, text: &str) {
	let txt = || format!("pem input={:?}", text);
	if let Some(Ok(p)) = call(ctx, env, case, "from_ca_cert_pem", &txt, || CertificateParams::from_ca_cert_pem(text)) {
		use_params(ctx, env, case, "from_ca_cert_pem", &txt, p);
	}
	if let Some(Ok(p)) = call(ctx, env, case, "csr_from_pem", &txt, || CertificateSigningRequestParams::from_pem(text)) {
		let _ = call(ctx, env, case, "csr_from_pem->signed_by", &txt, || p.signed_by(&env.ca, &env.key).map(|c| c.der().len()));
	}
	if let Some(Ok(s)) = call(ctx, env, case, "spki_from_pem", &txt, || SubjectPublicKeyInfo::from_pem(text)) {
		let _ = call(ctx, env, case, "spki_from_pem->signed_by", &txt, || CertificateParams::default().signed_by(&s, &env.ca, &env.key).map(|c| c.der().len()));
	}
	if let Some(Ok(k)) = call(ctx, env, case, "key_from_pem", &txt, || KeyPair::from_pem(text)) {
		use_key(ctx, env, case, "key_from_pem", &txt, k);
	}
	for alg in &env.algs {
		if let Some(Ok(k)) = call(ctx, env, case, "from_pem_and_sign_algo", &txt, || KeyPair::from_pem_and_sign_algo(text, alg)) {
			use_key(ctx, env, case, "from_pem_and_sign_algo", &txt, k);
		}
		if let Some(Ok(k)) = call(ctx, env, case, "from_pkcs8_pem_and_sign_algo", &txt, || KeyPair::from_pkcs8_pem_and_sign_algo(text, alg)) {
			use_key(ctx, env, case, "from_pkcs8_pem_and_sign_algo", &txt, k);
		}
	}
}

fn parse_text_input(ctx: &Ctx, env: &Env, case: &CaseId, rng: &mut Rng) {
	// string constructors, CIDR text, OID lookups on arbitrary values
	let s: String = {
		let n = rng.below(40) as usize;
		(0..n).map(|_| gen_char(rng, StrKind::Utf8)).collect()
	};
	let b = { let n = rng.below(24) as usize; rng.bytes(n) };
	let txt = || format!("text={:?} bytes={}", s, hex(&b));
	let _ = call(ctx, env, case, "string_ctors", &txt, || {
		(
			PrintableString::try_from(s.as_str()).is_ok(),
			Ia5String::try_from(s.clone()).is_ok(),
			TeletexString::from_str(&s).is_ok(),
			BmpString::try_from(s.as_str()).is_ok(),
			UniversalString::try_from(s.clone()).is_ok(),
			BmpString::from_utf16be(b.clone()).is_ok(),
			UniversalString::from_utf32be(b.clone()).is_ok(),
		)
	});
	// whatever a constructor ACCEPTS is a constructible value: generation from it returns Ok or Err.
	// Every string type through every constructor (borrowed text, owned text, FromStr, raw bytes).
	let s2: String = match rng.below(6) {
		0 => s.clone(),
		1 => format!("{}.example", gen_char(rng, StrKind::Utf8)),
		2 => format!("a{}", char::from_u32(0x100 * (1 + rng.below(0xff) as u32) + rng.below(0x80) as u32).unwrap_or('x')),
		3 => format!("{}", char::from_u32(rng.below(0x300) as u32).unwrap_or('y')),
		4 => hostile_string(rng),
		_ => s.chars().take(3).collect(),
	};
	let how = rng.below(3);
	let mut dn = DistinguishedName::new();
	let mut sans: Vec<SanType> = vec![];
	let made = call(ctx, env, case, "string_ctor_accepts", &|| format!("text={:?} ctor={}", s2, how), || {
		let ia5 = match how {
			0 => Ia5String::try_from(s2.as_str()),
			1 => Ia5String::try_from(s2.clone()),
			_ => Ia5String::from_str(&s2),
		};
		let pr = match how {
			0 => PrintableString::try_from(s2.as_str()),
			1 => PrintableString::try_from(s2.clone()),
			_ => PrintableString::from_str(&s2),
		};
		let tt = match how {
			0 => TeletexString::try_from(s2.as_str()),
			1 => TeletexString::try_from(s2.clone()),
			_ => TeletexString::from_str(&s2),
		};
		let bmp = match how {
			0 => BmpString::try_from(s2.as_str()),
			1 => BmpString::try_from(s2.clone()),
			_ => BmpString::from_str(&s2),
		};
		let un = match how {
			0 => UniversalString::try_from(s2.as_str()),
			1 => UniversalString::try_from(s2.clone()),
			_ => UniversalString::try_from(s2.as_str()),
		};
		(ia5.ok(), pr.ok(), tt.ok(), bmp.ok(), un.ok(), BmpString::from_utf16be(b.clone()).ok(), UniversalString::from_utf32be(b.clone()).ok())
	});
	if let Some((ia5, pr, tt, bmp, un, bmp2, un2)) = made {
		if let Some(v) = ia5 {
			ctx.count("outcome:ctor-accepted:ia5");
			sans.push(SanType::DnsName(v.clone()));
			sans.push(SanType::Rfc822Name(v.clone()));
			sans.push(SanType::URI(v.clone()));
			dn.push(DnType::CustomDnType(vec![1, 2, 840, 113549, 1, 9, 1]), DnValue::Ia5String(v));
		}
		if let Some(v) = pr {
			ctx.count("outcome:ctor-accepted:printable");
			dn.push(DnType::CountryName, DnValue::PrintableString(v));
		}
		if let Some(v) = tt {
			ctx.count("outcome:ctor-accepted:teletex");
			dn.push(DnType::OrganizationName, DnValue::TeletexString(v));
		}
		if let Some(v) = bmp {
			ctx.count("outcome:ctor-accepted:bmp");
			dn.push(DnType::OrganizationalUnitName, DnValue::BmpString(v));
		}
		if let Some(v) = un {
			ctx.count("outcome:ctor-accepted:universal");
			dn.push(DnType::LocalityName, DnValue::UniversalString(v));
		}
		if let Some(v) = bmp2 {
			dn.push(DnType::StateOrProvinceName, DnValue::BmpString(v));
		}
		if let Some(v) = un2 {
			dn.push(DnType::CommonName, DnValue::UniversalString(v));
		}
		let mut p = CertificateParams::default();
		p.distinguished_name = dn;
		p.subject_alt_names = sans;
		let d = format!("text={:?} ctor={} bytes={} -> {:?} {:?}", s2, how, hex(&b), p.distinguished_name, p.subject_alt_names);
		let t2 = || crate::util::clip(&d, 2000);
		let (p1, p2) = (p.clone(), p.clone());
		let _ = call(ctx, env, case, "accepted-strings->self_signed", &t2, || p1.self_signed(&env.key).map(|c| c.der().len()));
		let _ = call(ctx, env, case, "accepted-strings->serialize_request", &t2, || p2.serialize_request(&env.key).map(|c| c.der().len()));
	}
	let cidr = match rng.below(5) {
		0 => s.clone(),
		1 => format!("{}/{}", gen_ip(rng), rng.below(300)),
		2 => format!("{}/{}", gen_ip(rng), rng.range(-3, 40)),
		3 => format!("{}/{}/{}", gen_ip(rng), rng.below(33), rng.below(5)),
		_ => format!("{}.{}.{}/{}", rng.below(300), rng.below(300), s, rng.below(40)),
	};
	let _ = call(ctx, env, case, "cidr_from_str", &|| format!("{:?}", cidr), || CidrSubnet::from_str(&cidr).map(|c| format!("{:?}", c).len()));
	let pfx = rng.below(256) as u8;
	let ip = gen_ip(rng);
	let _ = call(ctx, env, case, "cidr_from_prefix", &|| format!("{} /{}", ip, pfx), || {
		(
			format!("{:?}", CidrSubnet::from_addr_prefix(ip, pfx)).len(),
			format!("{:?}", CidrSubnet::from_v4_prefix([1, 2, 3, 4], pfx)).len(),
			format!("{:?}", CidrSubnet::from_v6_prefix([9; 16], pfx)).len(),
		)
	});
	let oid = hostile_oid(rng);
	let _ = call(ctx, env, case, "from_oid", &|| format!("{:?}", oid), || (SignatureAlgorithm::from_oid(&oid).is_ok(), format!("{:?}", DnType::from_oid(&oid)).len()));
	let names: Vec<String> = (0..rng.below(4)).map(|_| if rng.chance(1, 2) { gen_host(rng) } else { s.clone() }).collect();
	let _ = call(ctx, env, case, "params_new", &|| format!("{:?}", names), || CertificateParams::new(names.clone()).map(|p| p.subject_alt_names.len()));
}

fn mutate_pem(rng: &mut Rng, pem: &str) -> String {
	let mut s = pem.to_string();
	for _ in 0..1 + rng.below(2) {
		s = match rng.below(14) {
			0 => s.replace('\n', "\r\n"),
			1 => {
				// truncate (on a character boundary: an earlier step may have put "é" into a label)
				let mut cut = (rng.below(s.len() as u64 + 1) as usize).min(s.len());
				while !s.is_char_boundary(cut) {
					cut -= 1;
				}
				s[..cut].chars().filter(|c| c.is_ascii()).collect()
			},
			2 => s.replacen("BEGIN", "BEGINN", 1),
			3 => s.replacen("-----END", "----END", 1),
			4 => {
				let labels = ["CERTIFICATE", "PRIVATE KEY", "RSA PRIVATE KEY", "EC PRIVATE KEY", "PUBLIC KEY", "CERTIFICATE REQUEST", "X509 CRL", "", "é", "A-B C"];
				let l = *rng.pick(&labels);
				let mut out = String::new();
				for line in s.lines() {
					if line.starts_with("-----BEGIN") {
						out.push_str(&format!("-----BEGIN {}-----\n", l));
					} else if line.starts_with("-----END") {
						out.push_str(&format!("-----END {}-----\n", l));
					} else {
						out.push_str(line);
						out.push('\n');
					}
				}
				out
			},
			5 => {
				let mut b: Vec<char> = s.chars().collect();
				if !b.is_empty() {
					let i = rng.below(b.len() as u64) as usize;
					b[i] = *rng.pick(&['!', ' ', '=', '\0', 'é', '-', '\n', 'A']);
				}
				b.into_iter().collect()
			},
			6 => format!("{}{}", s, s),
			7 => format!("garbage line\n{}", s),
			8 => s.replace('\n', ""),
			9 => s.lines().filter(|l| !l.starts_with("-----END")).collect::<Vec<_>>().join("\n"),
			10 => s.replace('=', ""),
			11 => {
				let mut lines: Vec<&str> = s.lines().collect();
				if lines.len() > 2 {
					let i = 1 + rng.below(lines.len() as u64 - 2) as usize;
					lines.remove(i);
				}
				lines.join("\n")
			},
			12 => s.lines().map(|l| format!("{}  ", l)).collect::<Vec<_>>().join("\n"),
			_ => {
				let i = (rng.below(s.len() as u64 + 1) as usize).min(s.len());
				if s.is_char_boundary(i) {
					let n = rng.below(3) as usize * 2000;
					format!("{}{}{}", &s[..i], "A".repeat(n), &s[i..])
				} else {
					s
				}
			},
		};
	}
	s
}

struct Corpus {
	der: Vec<(&'static str, Vec<u8>)>,
	pem: Vec<String>,
	donors: Vec<Vec<mutate::Node>>,
}

/// Directed: BEGIN/END lines whose labels differ, one of them long and with a non-ASCII character at every byte offset
/// up to 48 (an error path that quotes or clips a label must not cut a character in two).
const LABEL_SWEEP: u64 = 2 * 2 * 3 * 48 * 4;
fn label_sweep(i: u64, pems: &[String]) -> Option<String> {
	let side = i % 2;
	let style = i / 2 % 2;
	let ch = ['\u{e9}', '\u{20ac}', '\u{1f600}'][(i / 4 % 3) as usize];
	let k = (i / 12 % 48) as usize;
	let kind = ["PRIVATE KEY", "CERTIFICATE", "CERTIFICATE REQUEST", "PUBLIC KEY"][(i / 576 % 4) as usize];
	let begin = format!("-----BEGIN {}-----", kind);
	let base = pems.iter().find(|p| p.starts_with(&begin))?;
	let long = if style == 0 { format!("{} {}{}y", kind, "x".repeat(k), ch) } else { format!("{}{} {}", "x".repeat(k), ch, kind) };
	let mut out = String::new();
	for line in base.lines() {
		if line.starts_with("-----BEGIN") && side == 0 {
			out.push_str(&format!("-----BEGIN {}-----\n", long));
		} else if line.starts_with("-----END") && side == 1 {
			out.push_str(&format!("-----END {}-----\n", long));
		} else {
			out.push_str(line);
			out.push('\n');
		}
	}
	Some(out)
}

fn build_corpus(ctx: &Ctx, env_key: &KeyPair) -> Corpus {
	let mut der: Vec<(&'static str, Vec<u8>)> = Vec::new();
	let mut pem: Vec<String> = Vec::new();
	let mut rng = Rng::derive(ctx.seed, "c10-corpus", 0);
	let bases = base_keys(1, false);
	// certificates made by rcgen with every extension kind
	for i in 0..ctx.scale(40, 200) {
		let mut s = gen_params(&mut rng);
		if i % 3 == 0 {
			s.is_ca = IsCaSpec::Ca(Some(rng.below(256) as u8));
		}
		if i % 4 == 0 {
			fill_presence(&mut rng, &mut s, Presence::from_bits(127));
		}
		match crate::guard(|| s.to_rcgen(None).self_signed(env_key)) {
			Ok(Ok(c)) => {
				pem.push(c.pem());
				der.push(("cert", c.der().to_vec()));
			},
			Ok(Err(_)) => {},
			Err(p) => {
				let case = CaseId::new("corpus-generation", ctx.seed, i);
				report(ctx, &case, "self_signed(corpus)", &format!("{:?}", s), &p);
			},
		}
	}
	// certificates made by OpenSSL
	let pool = crate::keys::build_pool(crate::keys::PoolSize::Small);
	let locals: Vec<&crate::keys::PoolKey> = pool.iter().filter(|k| !k.is_remote()).collect();
	let tmp = ctx.out_dir.join("tmp");
	let _ = std::fs::create_dir_all(&tmp);
	for i in 0..ctx.scale(20, 100) {
		let k = locals[(i % locals.len() as u64) as usize];
		let ca = if i % 10 == 9 { crate::mon::imports::make_cli_multivalued_ca(&tmp, k, i) } else { crate::mon::imports::make_ossl_ca(&mut rng, k) };
		if let Ok(ca) = ca {
			pem.push(pemx::encode("CERTIFICATE", &ca.der, "\n"));
			der.push(("cert", ca.der));
		}
	}
	// directed: importable objects that carry text another tool wrote unchecked (valid UTF-8, not IA5, in
	// dNSName / rfc822Name / URI). If the import lets them in, generation gets values no constructor admits.
	{
		let mut p = CertificateParams::default();
		p.is_ca = IsCa::Ca(BasicConstraints::Unconstrained);
		p.subject_alt_names = vec![
			SanType::DnsName("muenchen.example".try_into().unwrap()),
			SanType::Rfc822Name("mueller@example.com".try_into().unwrap()),
			SanType::URI("https://example.com/gruesse".try_into().unwrap()),
		];
		if let Ok(Ok(c)) = crate::guard(|| p.self_signed(env_key)) {
			for (from, to) in [(&b"muenchen"[..], &b"m\xc3\xbcnchen"[..]), (&b"mueller"[..], &b"m\xc3\xbcller"[..]), (&b"gruesse"[..], &b"gr\xc3\xbcsse"[..])] {
				let mut d = c.der().to_vec();
				if let Some(pos) = d.windows(from.len()).position(|w| w == from) {
					d[pos..pos + from.len()].copy_from_slice(to);
					pem.push(pemx::encode("CERTIFICATE", &d, "\n"));
					der.push(("cert", d));
				}
			}
		}
		for name in ["m\u{fc}nchen.example", "xn--mnchen-3ya.example"] {
			let made = (|| -> Result<Vec<u8>, openssl::error::ErrorStack> {
				let pk = openssl::pkey::PKey::generate_ed25519()?;
				let mut b = openssl::x509::X509ReqBuilder::new()?;
				let mut nb = openssl::x509::X509NameBuilder::new()?;
				nb.append_entry_by_text("CN", "requester")?;
				b.set_subject_name(&nb.build())?;
				b.set_pubkey(&pk)?;
				b.set_version(0)?;
				let mut exts = openssl::stack::Stack::new()?;
				let mut san = openssl::x509::extension::SubjectAlternativeName::new();
				san.dns(name);
				exts.push(san.build(&b.x509v3_context(None))?)?;
				b.add_extensions(&exts)?;
				b.sign(&pk, unsafe { openssl::hash::MessageDigest::from_ptr(std::ptr::null()) })?;
				b.build().to_der()
			})();
			if let Ok(d) = made {
				pem.push(pemx::encode("CERTIFICATE REQUEST", &d, "\n"));
				der.push(("csr", d));
			}
		}
	}
	// CSRs
	for b in crate::mon::c06::rcgen_csrs(&mut rng, &pool, ctx.scale(12, 60) as usize) {
		pem.push(pemx::encode("CERTIFICATE REQUEST", &b.der, "\n"));
		der.push(("csr", b.der));
	}
	for b in crate::mon::c06::openssl_csrs(&mut rng, ctx.scale(16, 80) as usize) {
		pem.push(pemx::encode("CERTIFICATE REQUEST", &b.der, "\n"));
		der.push(("csr", b.der));
	}
	// keys: PKCS#8 v1/v2, SEC1, PKCS#1; SPKIs
	for b in &bases {
		pem.push(pemx::encode("PRIVATE KEY", &b.der, "\n"));
		der.push(("key", b.der.clone()));
		if let Ok(pk) = ossl::load_private(&b.der) {
			if let Ok(t) = pk.rsa().and_then(|r| r.private_key_to_der()) {
				pem.push(pemx::encode("RSA PRIVATE KEY", &t, "\n"));
				der.push(("key", t));
			}
			if let Ok(t) = pk.ec_key().and_then(|r| r.private_key_to_der()) {
				pem.push(pemx::encode("EC PRIVATE KEY", &t, "\n"));
				der.push(("key", t));
			}
			if let Ok(s) = pk.public_key_to_der() {
				pem.push(pemx::encode("PUBLIC KEY", &s, "\n"));
				der.push(("spki", s));
			}
		}
	}
	let donors = der.iter().filter_map(|(_, d)| mutate::parse_tree(d, 0)).collect();
	Corpus { der, pem, donors }
}

// ------------------------------------------------------------------ (b) hostile generation

fn hostile_oid(rng: &mut Rng) -> Vec<u64> {
	let n = match rng.below(6) {
		0 => 0,
		1 => 1,
		_ => rng.below(13) as usize,
	};
	(0..n)
		.map(|i| match rng.below(8) {
			0 => 0,
			1 => 1,
			2 => 2,
			3 => 3 + rng.below(40),
			4 => u64::MAX - rng.below(100),
			5 => 39 + rng.below(3),
			_ => {
				if i < 2 {
					rng.below(4)
				} else {
					rng.next_u64() >> rng.below(64)
				}
			},
		})
		.collect()
}

fn hostile_string(rng: &mut Rng) -> String {
	match rng.below(10) {
		0 => String::new(),
		1 => "é".into(),
		2 => "\u{0}".into(),
		3 => "a".repeat(70_000),
		4 => "日本語\u{10ffff}".into(),
		5 => "\u{80}\u{ff}".into(),
		_ => {
			let n = rng.below(30) as usize;
			(0..n).map(|_| gen_char(rng, StrKind::Utf8)).collect()
		},
	}
}

fn hostile_time(rng: &mut Rng) -> OffsetDateTime {
	for _ in 0..50 {
		let y = match rng.below(8) {
			0 => -9999,
			1 => 9999,
			2 => rng.range(-9999, 9999) as i32,
			3 => *rng.pick(&[-1, 0, 1, 1949, 1950, 2049, 2050, 9998]),
			_ => rng.range(1900, 2200) as i32,
		};
		let m = Month::try_from(1 + rng.below(12) as u8).unwrap();
		let d = 1 + rng.below(28) as u8;
		let date = match Date::from_calendar_date(y, m, if rng.chance(1, 4) { [1u8, 28, 1, 28][rng.below(4) as usize] } else { d }) {
			Ok(d) => d,
			Err(_) => continue,
		};
		let date = if rng.chance(1, 5) {
			Date::from_calendar_date(y, if rng.chance(1, 2) { Month::January } else { Month::December }, if rng.chance(1, 2) { 1 } else { 31 }).unwrap_or(date)
		} else {
			date
		};
		let time = Time::from_hms_nano(rng.below(24) as u8, rng.below(60) as u8, rng.below(60) as u8, rng.below(1_000_000_000) as u32).unwrap();
		let off = match rng.below(4) {
			0 => 0,
			1 => rng.range(-25, 25) as i32 * 3600,
			2 => *rng.pick(&[93599, -93599]),
			_ => rng.range(-93599, 93599) as i32,
		};
		if let Ok(o) = UtcOffset::from_whole_seconds(off) {
			return PrimitiveDateTime::new(date, time).assume_offset(o);
		}
	}
	OffsetDateTime::UNIX_EPOCH
}

fn hostile_dn(rng: &mut Rng) -> DistinguishedName {
	let mut dn = DistinguishedName::new();
	let n = match rng.below(8) {
		0 => 0,
		1 => 300,
		_ => rng.below(6),
	};
	for _ in 0..n {
		let ty = match rng.below(3) {
			0 => DnType::CustomDnType(hostile_oid(rng)),
			1 => DnType::from_oid(&hostile_oid(rng)),
			_ => rng.pick(&STD_TYPES).to_rcgen(),
		};
		let v = match rng.below(7) {
			0 => DnValue::Utf8String(hostile_string(rng)),
			k => {
				let kind = ALL_KINDS[(k as usize) % 6];
				dn_value(kind, &gen_text(rng, kind, 40))
			},
		};
		dn.push(ty, v);
	}
	dn
}

fn hostile_subtree(rng: &mut Rng) -> GeneralSubtree {
	match rng.below(5) {
		0 => GeneralSubtree::Rfc822Name(hostile_string(rng)),
		1 => GeneralSubtree::DnsName(hostile_string(rng)),
		2 => GeneralSubtree::DirectoryName(hostile_dn(rng)),
		3 => {
			let b = rng.bytes(8);
			GeneralSubtree::IpAddress(CidrSubnet::V4([b[0], b[1], b[2], b[3]], [b[4], b[5], b[6], b[7]]))
		},
		_ => {
			let b = rng.bytes(32);
			let mut a = [0u8; 16];
			let mut m = [0u8; 16];
			a.copy_from_slice(&b[..16]);
			m.copy_from_slice(&b[16..]);
			GeneralSubtree::IpAddress(CidrSubnet::V6(a, m))
		},
	}
}

/// Half of the hostile parameter sets are hostile in one or two dimensions only, so that an
/// early refusal of one field does not shield the code handling the others.
fn hostile_params(rng: &mut Rng) -> CertificateParams {
	let h = hostile_params_full(rng);
	if rng.chance(1, 2) {
		return h;
	}
	let mut p = CertificateParams::default();
	for _ in 0..1 + rng.below(2) {
		match rng.below(12) {
			0 => p.not_before = h.not_before,
			1 => p.not_after = h.not_after,
			2 => p.serial_number = h.serial_number.clone(),
			3 => p.subject_alt_names = h.subject_alt_names.clone(),
			4 => p.distinguished_name = h.distinguished_name.clone(),
			5 => p.is_ca = h.is_ca.clone(),
			6 => p.key_usages = h.key_usages.clone(),
			7 => p.extended_key_usages = h.extended_key_usages.clone(),
			8 => p.name_constraints = h.name_constraints.clone(),
			9 => p.crl_distribution_points = h.crl_distribution_points.clone(),
			10 => p.custom_extensions = h.custom_extensions.clone(),
			_ => {
				p.use_authority_key_identifier_extension = h.use_authority_key_identifier_extension;
				p.key_identifier_method = h.key_identifier_method.clone();
			},
		}
	}
	p
}

fn hostile_params_full(rng: &mut Rng) -> CertificateParams {
	let mut p = CertificateParams::default();
	p.not_before = hostile_time(rng);
	p.not_after = hostile_time(rng);
	p.serial_number = match rng.below(5) {
		0 => None,
		1 => Some(SerialNumber::from_slice(&[])),
		2 => Some(SerialNumber::from_slice(&rng.bytes(5000))),
		3 => Some(SerialNumber::from(rng.next_u64())),
		_ => Some(SerialNumber::from(gen_serial(rng))),
	};
	let nsan = match rng.below(10) {
		0 => 2000,
		_ => rng.below(5),
	};
	p.subject_alt_names = (0..nsan)
		.map(|_| match rng.below(3) {
			0 => SanType::OtherName((hostile_oid(rng), hostile_string(rng).into())),
			_ => gen_san(rng).to_rcgen(),
		})
		.collect();
	p.distinguished_name = hostile_dn(rng);
	p.is_ca = match rng.below(4) {
		0 => IsCa::NoCa,
		1 => IsCa::ExplicitNoCa,
		2 => IsCa::Ca(BasicConstraints::Unconstrained),
		_ => IsCa::Ca(BasicConstraints::Constrained(rng.below(256) as u8)),
	};
	p.key_usages = (0..match rng.below(6) {
		0 => 300,
		_ => rng.below(5),
	})
		.map(|_| *rng.pick(&KU_ALL))
		.collect::<Vec<KeyUsagePurpose>>();
	p.extended_key_usages = (0..rng.below(4))
		.map(|_| if rng.chance(1, 2) { ExtendedKeyUsagePurpose::Other(hostile_oid(rng)) } else { rng.pick(&STD_EKUS).to_rcgen() })
		.collect();
	p.name_constraints = match rng.below(4) {
		0 => None,
		1 => Some(NameConstraints { permitted_subtrees: vec![], excluded_subtrees: vec![] }),
		_ => Some(NameConstraints {
			permitted_subtrees: (0..rng.below(4)).map(|_| hostile_subtree(rng)).collect(),
			excluded_subtrees: (0..rng.below(4)).map(|_| hostile_subtree(rng)).collect(),
		}),
	};
	p.crl_distribution_points = (0..rng.below(3))
		.map(|_| CrlDistributionPoint { uris: (0..rng.below(3)).map(|_| hostile_string(rng)).collect() })
		.collect();
	p.custom_extensions = (0..rng.below(3))
		.map(|_| {
			let content = match rng.below(5) {
				0 => vec![],
				1 => rng.bytes(200_000),
				2 => gen_der_value(rng),
				_ => { let n = rng.below(40) as usize; rng.bytes(n) },
			};
			let mut e = CustomExtension::from_oid_content(&hostile_oid(rng), content);
			e.set_criticality(rng.chance(1, 2));
			e
		})
		.collect();
	if rng.chance(1, 10) {
		p.custom_extensions.push(CustomExtension::new_acme_identifier(&rng.bytes(32)));
	}
	p.use_authority_key_identifier_extension = rng.chance(1, 2);
	p.key_identifier_method = match rng.below(5) {
		0 => KeyIdMethod::PreSpecified(vec![]),
		1 => KeyIdMethod::PreSpecified(rng.bytes(100_000)),
		2 => KeyIdMethod::Sha384,
		3 => KeyIdMethod::Sha512,
		_ => KeyIdMethod::Sha256,
	};
	p
}

struct WeirdRemote {
	pk: Vec<u8>,
	sig: Option<Vec<u8>>,
	alg: &'static SignatureAlgorithm,
}

impl RemoteKeyPair for WeirdRemote {
	fn public_key(&self) -> &[u8] {
		&self.pk
	}
	fn sign(&self, _msg: &[u8]) -> Result<Vec<u8>, rcgen::Error> {
		self.sig.clone().ok_or(rcgen::Error::RemoteKeyError)
	}
	fn algorithm(&self) -> &'static SignatureAlgorithm {
		self.alg
	}
}

fn weird_key(rng: &mut Rng, algs: &[&'static SignatureAlgorithm]) -> KeyPair {
	let pk = match rng.below(4) {
		0 => vec![],
		1 => rng.bytes(300_000),
		_ => rng.bytes(32),
	};
	let sig = match rng.below(4) {
		0 => None,
		1 => Some(vec![]),
		2 => Some(rng.bytes(300_000)),
		_ => Some(rng.bytes(64)),
	};
	KeyPair::from_remote(Box::new(WeirdRemote { pk, sig, alg: *rng.pick(algs) })).expect("from_remote")
}

fn hostile_generation(ctx: &Ctx, env: &Env, case: &CaseId, rng: &mut Rng) {
	let p = hostile_params(rng);
	let dbg = format!("{:?}", p);
	let txt = || crate::util::clip(&dbg, 3000);
	let weird = weird_key(rng, &env.algs);
	let use_weird = rng.chance(1, 4);
	let key: &KeyPair = if use_weird { &weird } else { &env.key };
	let p1 = p.clone();
	let r1 = call(ctx, env, case, "self_signed", &txt, || p1.self_signed(key));
	ctx.count(match &r1 {
		Some(Ok(_)) => "outcome:hostile-self_signed:ok",
		Some(Err(_)) => "outcome:hostile-self_signed:refused",
		None => "outcome:hostile-self_signed:panicked",
	});
	if let Some(Ok(c)) = r1 {
		let _ = call(ctx, env, case, "cert_accessors", &txt, || {
			(c.pem().len(), c.der().len(), c.key_identifier().len(), format!("{:?}", c).len(), format!("{:?}", c.params()).len())
		});
		// the result can be an issuer
		let p5 = hostile_params(rng);
		let d5 = format!("{:?}", p5);
		let _ = call(ctx, env, case, "signed_by(hostile issuer)", &|| crate::util::clip(&d5, 3000), || p5.signed_by(&env.key, &c, key).map(|x| x.der().len()));
		let crl = hostile_crl(rng);
		let dc = format!("{:?}", crl);
		let rl = call(ctx, env, case, "crl_signed_by", &|| crate::util::clip(&dc, 3000), || crl.signed_by(&c, key));
		ctx.count(match &rl {
			Some(Ok(_)) => "outcome:hostile-crl:ok",
			Some(Err(_)) => "outcome:hostile-crl:refused",
			None => "outcome:hostile-crl:panicked",
		});
		if let Some(Ok(l)) = rl {
			let _ = call(ctx, env, case, "crl_accessors", &|| crate::util::clip(&dc, 3000), || (l.pem().map(|p| p.len()), l.der().len(), format!("{:?}", l).len()));
		}
	}
	let p2 = p.clone();
	let _ = call(ctx, env, case, "signed_by(keypair)", &txt, || p2.signed_by(key, &env.ca, &env.key).map(|c| c.der().len()));
	if let Ok(spki) = SubjectPublicKeyInfo::from_der(&env.key.public_key_der()) {
		let p3 = p.clone();
		let _ = call(ctx, env, case, "signed_by(spki)", &txt, || p3.signed_by(&spki, &env.ca, &env.key).map(|c| c.der().len()));
	}
	if let Ok(mut parsed) = CertificateSigningRequestParams::from_der(&CertificateSigningRequestDer::from(env.good_csr.clone())) {
		parsed.params = p.clone();
		let _ = call(ctx, env, case, "csr_params_signed_by", &txt, || parsed.signed_by(&env.ca, key).map(|c| c.der().len()));
	}
	// CSR generation, with and without attributes
	let mut p4 = p.clone();
	if rng.chance(3, 4) {
		p4.serial_number = None;
		p4.is_ca = IsCa::NoCa;
		p4.name_constraints = None;
		p4.crl_distribution_points = vec![];
		p4.use_authority_key_identifier_extension = false;
	}
	let attrs: Vec<Attribute> = (0..rng.below(4))
		.map(|_| Attribute {
			oid: Box::leak(hostile_oid(rng).into_boxed_slice()),
			values: match rng.below(4) {
				0 => vec![],
				1 => rng.bytes(100_000),
				2 => gen_der_value(rng),
				_ => { let n = rng.below(30) as usize; rng.bytes(n) },
			},
		})
		.collect();
	let da = format!("{:?}", attrs.iter().map(|a| (a.oid.to_vec(), a.values.len())).collect::<Vec<_>>());
	let p4b = p4.clone();
	if let Some(Ok(r)) = call(ctx, env, case, "serialize_request", &txt, || p4b.serialize_request(key)) {
		let _ = call(ctx, env, case, "csr_accessors", &txt, || (r.pem().map(|p| p.len()), r.der().len(), format!("{:?}", r).len()));
	}
	let _ = call(ctx, env, case, "serialize_request_with_attributes", &|| format!("attrs={} params={}", da, txt()), || {
		p4.serialize_request_with_attributes(key, attrs).map(|c| c.der().len())
	});
	let sn = SerialNumber::from_slice(&{ let n = rng.below(40) as usize; rng.bytes(n) });
	let _ = call(ctx, env, case, "serial_display", &|| format!("{:?}", sn), || (format!("{}", sn).len(), sn.len(), sn.to_bytes().len()));
}

fn benign_crl() -> CertificateRevocationListParams {
	CertificateRevocationListParams {
		this_update: OffsetDateTime::from_unix_timestamp(1_700_000_000).unwrap(),
		next_update: OffsetDateTime::from_unix_timestamp(1_800_000_000).unwrap(),
		crl_number: SerialNumber::from(7u64),
		issuing_distribution_point: None,
		revoked_certs: vec![RevokedCertParams {
			serial_number: SerialNumber::from(9u64),
			revocation_time: OffsetDateTime::from_unix_timestamp(1_690_000_000).unwrap(),
			reason_code: None,
			invalidity_date: None,
		}],
		key_identifier_method: KeyIdMethod::Sha256,
	}
}

fn hostile_crl(rng: &mut Rng) -> CertificateRevocationListParams {
	let h = hostile_crl_full(rng);
	if rng.chance(1, 2) {
		return h;
	}
	let mut c = benign_crl();
	let mut h = h;
	for _ in 0..1 + rng.below(2) {
		match rng.below(8) {
			0 => c.this_update = h.this_update,
			1 => c.next_update = h.next_update,
			2 => c.crl_number = h.crl_number.clone(),
			3 => c.issuing_distribution_point = h.issuing_distribution_point.take(),
			4 => c.key_identifier_method = h.key_identifier_method.clone(),
			5 => c.revoked_certs[0].revocation_time = hostile_time(rng),
			6 => c.revoked_certs[0].invalidity_date = Some(hostile_time(rng)),
			_ => {
				if !h.revoked_certs.is_empty() {
					c.revoked_certs = std::mem::take(&mut h.revoked_certs);
					c.revoked_certs.push(benign_crl().revoked_certs.remove(0));
				}
			},
		}
	}
	c
}

fn hostile_crl_full(rng: &mut Rng) -> CertificateRevocationListParams {
	CertificateRevocationListParams {
		this_update: hostile_time(rng),
		next_update: hostile_time(rng),
		crl_number: SerialNumber::from_slice(&match rng.below(4) {
			0 => vec![],
			1 => rng.bytes(3000),
			_ => gen_serial(rng),
		}),
		issuing_distribution_point: match rng.below(3) {
			0 => None,
			_ => Some(CrlIssuingDistributionPoint {
				distribution_point: CrlDistributionPoint { uris: (0..rng.below(3)).map(|_| hostile_string(rng)).collect() },
				scope: match rng.below(3) {
					0 => None,
					1 => Some(CrlScope::UserCertsOnly),
					_ => Some(CrlScope::CaCertsOnly),
				},
			}),
		},
		revoked_certs: (0..match rng.below(8) {
			0 => 500,
			_ => rng.below(4),
		})
			.map(|_| RevokedCertParams {
				serial_number: SerialNumber::from_slice(&gen_serial(rng)),
				revocation_time: hostile_time(rng),
				reason_code: match rng.below(4) {
					0 => None,
					_ => Some(*rng.pick(&[
						RevocationReason::Unspecified,
						RevocationReason::KeyCompromise,
						RevocationReason::CaCompromise,
						RevocationReason::AffiliationChanged,
						RevocationReason::Superseded,
						RevocationReason::CessationOfOperation,
						RevocationReason::CertificateHold,
						RevocationReason::RemoveFromCrl,
						RevocationReason::PrivilegeWithdrawn,
						RevocationReason::AaCompromise,
					])),
				},
				invalidity_date: if rng.chance(1, 2) { Some(hostile_time(rng)) } else { None },
			})
			.collect(),
		key_identifier_method: match rng.below(3) {
			0 => KeyIdMethod::PreSpecified({ let n = rng.below(70) as usize; rng.bytes(n) }),
			1 => KeyIdMethod::Sha512,
			_ => KeyIdMethod::Sha256,
		},
	}
}

/// Directed date boundaries: every date-bearing field x years at both ends of the encodable range
/// and at the UTCTime/GeneralizedTime switch x first/last day x times next to midnight x offsets
/// that move the UTC value across the boundary.
const TB_YEARS: [i32; 12] = [-9999, -1, 0, 1, 1949, 1950, 2049, 2050, 9998, 9999, 1970, 1969];
const TB_DAYS: [(u8, u8); 2] = [(1, 1), (12, 31)];
const TB_TIMES: [(u8, u8, u8, u32); 5] = [(0, 0, 0, 0), (0, 30, 0, 0), (23, 30, 0, 0), (23, 59, 59, 999_999_999), (12, 0, 0, 1)];
const TB_OFFSETS: [i32; 11] = [0, 1, -1, 3600, -3600, 93599, -93599, 1800, -1800, 86400, -86400];
const TB_FIELDS: u64 = 6;

fn time_boundary_count() -> u64 {
	TB_FIELDS * (TB_YEARS.len() * TB_DAYS.len() * TB_TIMES.len() * TB_OFFSETS.len()) as u64
}

fn time_boundary(ctx: &Ctx, env: &Env, case: &CaseId, i: u64) {
	let mut k = i;
	let mut take = |n: usize| { let r = (k % n as u64) as usize; k /= n as u64; r };
	let off = TB_OFFSETS[take(TB_OFFSETS.len())];
	let (h, mi, sec, ns) = TB_TIMES[take(TB_TIMES.len())];
	let (mo, d) = TB_DAYS[take(TB_DAYS.len())];
	let y = TB_YEARS[take(TB_YEARS.len())];
	let field = take(TB_FIELDS as usize);
	let date = match Date::from_calendar_date(y, Month::try_from(mo).unwrap(), d) {
		Ok(d) => d,
		Err(_) => return,
	};
	let t = PrimitiveDateTime::new(date, Time::from_hms_nano(h, mi, sec, ns).unwrap()).assume_offset(UtcOffset::from_whole_seconds(off).unwrap());
	let txt = || format!("field {} = {:?}", ["not_before", "not_after", "this_update", "next_update", "revocation_time", "invalidity_date"][field], t);
	ctx.count("enum:time-boundaries");
	if field < 2 {
		let mut p = CertificateParams::default();
		if field == 0 { p.not_before = t } else { p.not_after = t }
		let p2 = p.clone();
		let r = call(ctx, env, case, "self_signed(time-boundary)", &txt, || p.self_signed(&env.key).map(|c| c.der().len()));
		ctx.count(match r { Some(Ok(_)) => "outcome:time-boundary:ok", Some(Err(_)) => "outcome:time-boundary:refused", None => "outcome:time-boundary:panicked" });
		let _ = call(ctx, env, case, "signed_by(time-boundary)", &txt, || p2.signed_by(&env.key, &env.ca, &env.key).map(|c| c.der().len()));
	} else {
		let mut c = benign_crl();
		match field {
			2 => c.this_update = t,
			3 => c.next_update = t,
			4 => c.revoked_certs[0].revocation_time = t,
			_ => c.revoked_certs[0].invalidity_date = Some(t),
		}
		let r = call(ctx, env, case, "crl_signed_by(time-boundary)", &txt, || c.signed_by(&env.ca, &env.key).map(|l| l.der().len()));
		ctx.count(match r { Some(Ok(_)) => "outcome:time-boundary:ok", Some(Err(_)) => "outcome:time-boundary:refused", None => "outcome:time-boundary:panicked" });
	}
}

pub fn run(ctx: &Ctx, shard: (u64, u64)) {
	let key = KeyPair::generate().expect("keygen");
	let mut cap = ParamSpec::minimal();
	cap.is_ca = IsCaSpec::Ca(None);
	let ca = cap.to_rcgen(None).self_signed(&key).expect("ca");
	let good_csr = CertificateParams::default().serialize_request(&key).expect("csr").der().to_vec();
	let env = Env {
		key,
		ca,
		good_csr,
		algs: all_sigalgs().into_iter().filter_map(rcgen_alg).collect(),
		watch: Watch::new(ctx.threads),
	};
	let corpus = build_corpus(ctx, &env.key);
	ctx.note(format!("corpus: {} DER inputs ({} certificates, {} CSRs, {} keys, {} SPKIs), {} PEM texts",
		corpus.der.len(),
		corpus.der.iter().filter(|d| d.0 == "cert").count(),
		corpus.der.iter().filter(|d| d.0 == "csr").count(),
		corpus.der.iter().filter(|d| d.0 == "key").count(),
		corpus.der.iter().filter(|d| d.0 == "spki").count(),
		corpus.pem.len()));

	// watchdog: a call running longer than 20 s makes the run inconclusive (never a violation)
	let stop = std::sync::atomic::AtomicBool::new(false);
	struct StopOnDrop<'a>(&'a std::sync::atomic::AtomicBool);
	impl Drop for StopOnDrop<'_> {
		fn drop(&mut self) {
			self.0.store(true, Ordering::Relaxed);
		}
	}
	std::thread::scope(|s| {
		let _stop_guard = StopOnDrop(&stop);
		s.spawn(|| {
			while !stop.load(Ordering::Relaxed) {
				std::thread::sleep(std::time::Duration::from_millis(500));
				let (ms, case) = env.watch.worst();
				if ms > 20_000 {
					ctx.inconclusive(&format!("an API call has been running for {} ms (case index {})", ms, case));
					let _ = ctx.finish("", "");
					std::process::exit(3);
				}
			}
		});
		let (si, sn) = shard;
		let marker = std::env::var("VERIF_MARKER_FILE").ok();
		let workloads: [(&str, u64); 6] = [
			("time-boundaries", time_boundary_count()),
			("corpus", corpus.der.len() as u64 + corpus.pem.len() as u64),
			("der-mutants", ctx.scale(120_000, 6_000_000)),
			("pem-mutants", ctx.scale(20_000, 600_000)),
			("random-bytes", ctx.scale(20_000, 600_000)),
			("hostile-generation", ctx.scale(12_000, 400_000)),
		];
		for (wl, n) in workloads {
			if let Some(r) = &ctx.replay {
				if r.workload != wl {
					continue;
				}
			}
			par_for(n, ctx.threads, |i| {
				if i % sn != si {
					return;
				}
				if let Some(r) = &ctx.replay {
					if r.index != i {
						return;
					}
				}
				let case = CaseId::new(wl, ctx.seed, i);
				let mut rng = case.rng();
				if let Some(m) = &marker {
					// rerun after a shard died from a signal: leave a trace of the case being executed
					let _ = std::fs::write(m, format!("{} {} {}\n", wl, ctx.seed, i));
				}
				ctx.count(&format!("eval:inputs:{}", wl));
				match wl {
					"corpus" => {
						if (i as usize) < corpus.der.len() {
							let (k, d) = &corpus.der[i as usize];
							parse_der_input(ctx, &env, &case, k, d);
						} else {
							parse_pem_input(ctx, &env, &case, &corpus.pem[i as usize - corpus.der.len()]);
						}
						ctx.count("dist:corpus");
					},
					"der-mutants" => {
						let (kind, base) = &corpus.der[(i % corpus.der.len() as u64) as usize];
						let (m, desc) = mutate::mutant(&mut rng, base, &corpus.donors);
						// a mutant of one kind is also a hostile input for the other parsers now and then
						let k2: &str = if rng.chance(1, 10) { *rng.pick(&["cert", "csr", "spki", "key"]) } else { *kind };
						parse_der_input(ctx, &env, &case, k2, &m);
						ctx.distinct(fnv64(&m) ^ fnv64(k2.as_bytes()));
						ctx.sample(|| format!("der-mutant of a {} ({} bytes) by {} offered as {}", kind, base.len(), desc, k2));
					},
					"pem-mutants" => {
						let t = match if i < LABEL_SWEEP { label_sweep(i, &corpus.pem) } else { None } {
							Some(t) => {
								ctx.count("dist:pem-label-sweep");
								t
							},
							None => mutate_pem(&mut rng, &corpus.pem[(i % corpus.pem.len() as u64) as usize]),
						};
						parse_pem_input(ctx, &env, &case, &t);
						ctx.distinct(fnv64(t.as_bytes()));
					},
					"random-bytes" => {
						let n = match rng.below(6) {
							0 => 0,
							1 => rng.below(8) as usize,
							2 => rng.below(4096) as usize,
							_ => rng.below(200) as usize,
						};
						let mut b = rng.bytes(n);
						if rng.chance(1, 2) && !b.is_empty() {
							b[0] = 0x30;
						}
						let kind = *rng.pick(&["cert", "csr", "spki", "key"]);
						parse_der_input(ctx, &env, &case, kind, &b);
						if rng.chance(1, 4) {
							parse_pem_input(ctx, &env, &case, &String::from_utf8_lossy(&b));
						}
						parse_text_input(ctx, &env, &case, &mut rng);
						ctx.distinct(fnv64(&b) ^ i);
					},
					"time-boundaries" => time_boundary(ctx, &env, &case, i),
					_ => {
						hostile_generation(ctx, &env, &case, &mut rng);
						ctx.distinct(i.wrapping_mul(0x9E3779B97F4A7C15) ^ ctx.seed);
					},
				}
			});
		}
		stop.store(true, Ordering::Relaxed);
	});
}
