//! Shared CRL workload (C08, and the CRL parts of C01, C04, C05).
#![cfg(all(feature = "crypto", feature = "ossl"))]

use rcgen::{
	Certificate, CertificateRevocationList, CertificateRevocationListParams, CrlDistributionPoint,
	CrlIssuingDistributionPoint, CrlScope, RevocationReason, RevokedCertParams, SerialNumber,
};

use crate::ctx::{par_for, CaseId, Ctx};
use crate::derx;
use crate::keys::PoolKey;
use crate::mon::certs::{check_sig_value, check_signed, classify, prop_tag, Prop};
use crate::spec::*;
use crate::util::{hex, Rng};
use crate::x509;

#[derive(Clone, Debug)]
pub struct RevSpec {
	pub serial: Vec<u8>,
	pub time: TimeSpec,
	/// RFC 5280 reason code value
	pub reason: Option<u8>,
	pub invalidity: Option<TimeSpec>,
}

#[derive(Clone, Debug)]
pub struct CrlSpec {
	pub this_update: TimeSpec,
	pub next_update: TimeSpec,
	pub number: Vec<u8>,
	/// (uris, scope: 0 none, 1 user certs only, 2 CA certs only)
	pub idp: Option<(Vec<String>, u8)>,
	pub revoked: Vec<RevSpec>,
	pub kid: KidSpec,
	/// key usages declared by the issuer certificate (9-bit mask, 0 = none declared)
	pub issuer_ku: u16,
}

pub const REASONS: [u8; 10] = [0, 1, 2, 3, 4, 5, 6, 8, 9, 10];

fn reason_to_rcgen(r: u8) -> RevocationReason {
	match r {
		0 => RevocationReason::Unspecified,
		1 => RevocationReason::KeyCompromise,
		2 => RevocationReason::CaCompromise,
		3 => RevocationReason::AffiliationChanged,
		4 => RevocationReason::Superseded,
		5 => RevocationReason::CessationOfOperation,
		6 => RevocationReason::CertificateHold,
		8 => RevocationReason::RemoveFromCrl,
		9 => RevocationReason::PrivilegeWithdrawn,
		_ => RevocationReason::AaCompromise,
	}
}

impl CrlSpec {
	pub fn to_rcgen(&self) -> CertificateRevocationListParams {
		CertificateRevocationListParams {
			this_update: self.this_update.to_time().expect("this_update"),
			next_update: self.next_update.to_time().expect("next_update"),
			crl_number: SerialNumber::from_slice(&self.number),
			issuing_distribution_point: self.idp.as_ref().map(|(uris, scope)| CrlIssuingDistributionPoint {
				distribution_point: CrlDistributionPoint { uris: uris.clone() },
				scope: match scope {
					1 => Some(CrlScope::UserCertsOnly),
					2 => Some(CrlScope::CaCertsOnly),
					_ => None,
				},
			}),
			revoked_certs: self
				.revoked
				.iter()
				.map(|r| RevokedCertParams {
					serial_number: SerialNumber::from_slice(&r.serial),
					revocation_time: r.time.to_time().expect("revocation time"),
					reason_code: r.reason.map(reason_to_rcgen),
					invalidity_date: r.invalidity.as_ref().map(|t| t.to_time().expect("invalidity")),
				})
				.collect(),
			key_identifier_method: self.kid.to_rcgen(),
		}
	}
	/// must the request be refused? (computed on whole seconds, and from the issuer's declared usages)
	pub fn must_refuse(&self) -> bool {
		self.next_update.unix <= self.this_update.unix || (self.issuer_ku != 0 && self.issuer_ku & (1 << 6) == 0)
	}
}

pub struct CrlCase<'a> {
	pub id: CaseId,
	pub spec: CrlSpec,
	pub key: &'a PoolKey,
	pub issuer_name: NameSpec,
	pub issuer_kid: KidSpec,
}

impl<'a> CrlCase<'a> {
	pub fn text(&self) -> String {
		format!("issuer_key={} issuer_name={:?} spec={:?}", self.key.label, self.issuer_name, self.spec)
	}
	pub fn issuer_cert(&self) -> Result<Certificate, String> {
		let mut s = ParamSpec::minimal();
		s.subject = self.issuer_name.clone();
		s.is_ca = IsCaSpec::Ca(None);
		s.ku = self.spec.issuer_ku;
		s.kid = self.issuer_kid.clone();
		match crate::guard(|| s.to_rcgen(None).self_signed(&self.key.kp).map_err(|e| e.to_string())) {
			Ok(r) => r,
			Err(p) => Err(format!("PANIC: {}", p)),
		}
	}
}

pub enum Outcome {
	Panic(String),
	Err(String),
	Ok(CertificateRevocationList, Certificate),
}

pub fn build(case: &CrlCase<'_>) -> Outcome {
	let issuer = match case.issuer_cert() {
		Ok(i) => i,
		Err(e) => return Outcome::Err(e),
	};
	let params = case.spec.to_rcgen();
	match crate::guard(|| params.signed_by(&issuer, &case.key.kp)) {
		Err(p) => Outcome::Panic(p),
		Ok(Err(e)) => Outcome::Err(e.to_string()),
		Ok(Ok(c)) => Outcome::Ok(c, issuer),
	}
}

fn norm_reason(r: Option<u8>) -> Option<u8> {
	match r {
		Some(0) | None => None,
		x => x,
	}
}

pub fn check_c08(ctx: &Ctx, case: &CrlCase<'_>, crl: &CertificateRevocationList, issuer: &Certificate) {
	let txt = || case.text();
	let v = match x509::parse_crl(crl.der()) {
		Ok(v) => v,
		Err(e) => return ctx.violation("c08:undecodable", &case.id, &txt(), &e),
	};
	let s = &case.spec;
	let mut bad = |what: &str, d: String| ctx.violation(&format!("c08:{}", what), &case.id, &txt(), &d);
	let iv = match x509::parse_certificate(issuer.der()) {
		Ok(v) => v,
		Err(e) => return ctx.violation("c08:issuer-undecodable", &case.id, &txt(), &e),
	};
	if v.issuer.raw != iv.subject.raw {
		bad("issuer-name", format!("CRL issuer {} issuer certificate subject {}", hex(&v.issuer.raw), hex(&iv.subject.raw)));
	}
	if v.this_update.unix != s.this_update.unix {
		bad("this-update", format!("encoded {} given {}", v.this_update.unix, s.this_update.unix));
	}
	match &v.next_update {
		None => bad("next-update-missing", "nextUpdate absent".into()),
		Some(n) => {
			if n.unix != s.next_update.unix {
				bad("next-update", format!("encoded {} given {}", n.unix, s.next_update.unix));
			}
			if n.unix <= v.this_update.unix {
				bad("next-not-after-this", format!("encoded nextUpdate {} <= thisUpdate {}", n.unix, v.this_update.unix));
			}
		},
	}
	let empty = Vec::new();
	let exts = v.exts.as_ref().unwrap_or(&empty);
	let get = |oid: &[u64]| exts.iter().filter(|e| e.oid == oid).collect::<Vec<_>>();
	// CRL number
	match get(x509::OID_CRL_NUMBER).as_slice() {
		[e] => match derx::parse_exact(&e.value, false) {
			Ok(t) if t.is_univ(derx::INTEGER) && !t.content.is_empty() => {
				if t.content[0] & 0x80 != 0 || x509::int_magnitude(t.content) != x509::strip_zeros(&s.number) {
					bad("crl-number", format!("encoded {} given {}", hex(t.content), hex(&s.number)));
				}
			},
			_ => bad("crl-number-undecodable", hex(&e.value)),
		},
		o => bad("crl-number-presence", format!("{} CRL number extensions", o.len())),
	}
	// AKI from the issuer key by the CRL's chosen method
	let want_aki = s.kid.derive(&case.key.spki);
	match get(x509::OID_AKI).as_slice() {
		[e] => match x509::parse_aki(&e.value) {
			Ok(a) if a == want_aki => {},
			Ok(a) => bad("aki", format!("encoded {} expected {} (method {:?})", hex(&a), hex(&want_aki), s.kid)),
			Err(m) => bad("aki-undecodable", m),
		},
		o => bad("aki-presence", format!("{} authority key identifier extensions", o.len())),
	}
	// issuing distribution point
	match (get(x509::OID_IDP).as_slice(), &s.idp) {
		([], None) => {},
		([e], Some((uris, scope))) => match x509::parse_idp(&e.value) {
			Err(m) => bad("idp-undecodable", m),
			Ok((names, user, ca)) => {
				let mut got: Vec<String> = names.iter().map(gn_key).collect();
				let mut want: Vec<String> = uris.iter().map(|u| format!("uri:{}", hex(u.as_bytes()))).collect();
				got.sort();
				want.sort();
				if got != want {
					bad("idp-uris", format!("encoded {:?} given {:?}", got, want));
				}
				if (user, ca) != (*scope == 1, *scope == 2) {
					bad("idp-scope", format!("encoded onlyUser={} onlyCA={} given scope {}", user, ca, scope));
				}
			},
		},
		(o, w) => bad("idp-presence", format!("{} IDP extensions, requested={}", o.len(), w.is_some())),
	}
	for e in exts {
		if ![x509::OID_CRL_NUMBER, x509::OID_AKI, x509::OID_IDP].iter().any(|o| *o == e.oid.as_slice()) {
			bad("unrequested-extension", format!("{:?}", e.oid));
		}
	}
	// entries
	let entries = v.revoked.clone().unwrap_or_default();
	if entries.len() != s.revoked.len() {
		bad("entry-count", format!("{} entries encoded, {} given", entries.len(), s.revoked.len()));
	}
	let desc_spec = |r: &RevSpec| {
		format!(
			"{}|{}|{:?}|{:?}",
			hex(&x509::strip_zeros(&r.serial)),
			r.time.unix,
			norm_reason(r.reason),
			r.invalidity.as_ref().map(|t| t.unix)
		)
	};
	let mut got: Vec<String> = Vec::new();
	for e in &entries {
		let mut reason = None;
		let mut inval = None;
		for x in e.exts.iter().flatten() {
			if x.oid == x509::OID_REASON {
				match derx::parse_exact(&x.value, true) {
					Ok(t) if t.is_univ(derx::ENUMERATED) && t.content.len() == 1 => reason = Some(t.content[0]),
					_ => bad("reason-undecodable", hex(&x.value)),
				}
			} else if x.oid == x509::OID_INVALIDITY {
				match derx::parse_exact(&x.value, true).and_then(|t| x509::parse_time(&t)) {
					Ok(t) => {
						if t.tag != derx::GENTIME {
							bad("invalidity-date-not-generalizedtime", format!("tag {} text {}", t.tag, t.text));
						}
						inval = Some(t.unix);
					},
					Err(m) => bad("invalidity-date-undecodable", m),
				}
			} else {
				bad("entry-unrequested-extension", format!("{:?}", x.oid));
			}
		}
		if e.serial[0] & 0x80 != 0 {
			bad("entry-serial-negative", hex(&e.serial));
		}
		got.push(format!("{}|{}|{:?}|{:?}", hex(&x509::int_magnitude(&e.serial)), e.time.unix, norm_reason(reason), inval));
	}
	let mut want: Vec<String> = s.revoked.iter().map(desc_spec).collect();
	got.sort();
	want.sort();
	if got != want {
		let diff: Vec<&String> = want.iter().filter(|w| !got.contains(w)).take(3).collect();
		bad("entries", format!("entries differ; first given-but-not-encoded (serial|time|reason|invalidity): {:?}; encoded sample {:?}", diff, got.iter().take(3).collect::<Vec<_>>()));
	}

	// independent revocation checkers: listed <=> revoked
	match openssl::x509::X509Crl::from_der(crl.der()) {
		Err(e) => bad("openssl-rejects", e.to_string()),
		Ok(oc) => {
			let mut probes: Vec<(Vec<u8>, bool)> = Vec::new();
			for r in s.revoked.iter().take(40) {
				probes.push((r.serial.clone(), true));
				let mut z = vec![0u8];
				z.extend(&r.serial);
				probes.push((z, true));
			}
			let listed: Vec<Vec<u8>> = s.revoked.iter().map(|r| x509::strip_zeros(&r.serial)).collect();
			let mut rng = case.id.rng();
			for i in 0..(s.revoked.len().min(40) + 3) {
				let mut c = if i < s.revoked.len() { s.revoked[i].serial.clone() } else { rng.bytes(1 + i % 9) };
				if let Some(l) = c.last_mut() {
					*l = l.wrapping_add(1);
				} else {
					c.push(1);
				}
				let is_listed = listed.contains(&x509::strip_zeros(&c));
				probes.push((c, is_listed));
			}
			for (serial, want_revoked) in probes {
				let bn = openssl::bn::BigNum::from_slice(&serial).unwrap();
				let ai = bn.to_asn1_integer().unwrap();
				let st = oc.get_by_serial(&ai);
				let revoked = !matches!(st, openssl::x509::CrlStatus::NotRevoked);
				ctx.count("eval:revocation_lookups");
				if revoked != want_revoked {
					bad(
						"revocation-lookup",
						format!("OpenSSL says revoked={} for serial {} but listed={}", revoked, hex(&serial), want_revoked),
					);
				}
			}
			// thisUpdate through OpenSSL as well
			if let Ok(u) = crate::ossl::asn1_time_unix(oc.last_update()) {
				if u != s.this_update.unix {
					bad("openssl-this-update", format!("OpenSSL {} given {}", u, s.this_update.unix));
				}
			}
			if let Ok(pk) = openssl::pkey::PKey::public_key_from_der(&case.key.spki) {
				if !oc.verify(&pk).unwrap_or(false) {
					bad("openssl-crl-verify", "X509_CRL_verify fails under the issuer key".into());
				}
			}
		},
	}
	// full path validation with revocation checking: a leaf whose serial is listed must be rejected as revoked,
	// a leaf with an unlisted serial must pass (for CRLs that are current at a time the issuer is valid)
	let at = s.this_update.unix + 1;
	let eligible = case.id.index % 2 == 0
		&& s.idp.is_none()
		&& at < s.next_update.unix
		&& (1_600_000_100..3_900_000_000).contains(&at)
		&& !case.key.is_remote()
		&& x509::strip_zeros(&s.number).len() < 20
		// a validator associates CRL and issuer through AKI == SKI: only possible when both use one method;
		// and it wants the issuer to be allowed to sign certificates and CRLs
		&& case.issuer_kid == s.kid
		&& (s.issuer_ku == 0 || (s.issuer_ku & (1 << 5) != 0 && s.issuer_ku & (1 << 6) != 0))
		// validators look the CRL up by a canonicalised issuer name and read every time value in it: keep to
		// plain names and post-1970 UTCTime/GeneralizedTime instants, the rest is judged by the decoders above
		&& case.issuer_name.iter().all(|a| {
			matches!(a.kind, StrKind::Utf8 | StrKind::Printable) && !a.text.trim().is_empty() && a.text.chars().all(|c| c.is_ascii_alphanumeric() || c == ' ') && !matches!(a.ty, DnTy::Custom(_))
		})
		&& s.revoked.iter().all(|r| (0..4_000_000_000).contains(&r.time.unix) && r.invalidity.as_ref().map_or(true, |t| (0..4_000_000_000).contains(&t.unix)));
	if eligible {
		let listed: Option<&RevSpec> = s.revoked.iter().find(|r| !x509::strip_zeros(&r.serial).is_empty() && r.reason != Some(8) && r.serial.len() <= 19);
		let mut probes: Vec<(Vec<u8>, bool)> = vec![(vec![0x5a, 0x11, 0x22, (case.id.index % 251) as u8, 0x77], false)];
		if let Some(l) = listed {
			probes.push((l.serial.clone(), true));
		}
		probes.retain(|(ser, want)| *want || !s.revoked.iter().any(|r| x509::strip_zeros(&r.serial) == x509::strip_zeros(ser)));
		let crl_file = ctx.out_dir.join(format!("crl-{}-{}.pem", case.id.workload, case.id.index));
		let wrote = crl.pem().ok().map(|p| std::fs::write(&crl_file, p).is_ok()).unwrap_or(false);
		for (serial, want_revoked) in probes {
			let leaf_key = rcgen::KeyPair::generate().expect("keygen");
			let mut lp = rcgen::CertificateParams::default();
			lp.serial_number = Some(rcgen::SerialNumber::from_slice(&serial));
			lp.subject_alt_names = vec![rcgen::SanType::DnsName("leaf.example".try_into().unwrap())];
			let leaf = match lp.signed_by(&leaf_key, issuer, &case.key.kp) {
				Ok(c) => c,
				Err(_) => continue,
			};
			if wrote {
				let mut o = crate::ossl::VerifyOpts::at(at);
				o.crl_check = true;
				o.crl_pem_files = vec![crl_file.clone()];
				match crate::ossl::openssl_verify(leaf.der(), &[], &[issuer.der().to_vec()], &o) {
					Err(e) => ctx.note(format!("openssl CRL_CHECK harness error: {}", e)),
					Ok(v) => {
						ctx.count("eval:openssl_path_validations_with_crl");
						let revoked = matches!(&v, Err(w) if w.contains("revoked"));
						if revoked != want_revoked || (v.is_err() && !revoked) {
							bad(
								"openssl-path-revocation",
								format!("X509_verify_cert with CRL_CHECK for serial {}: {:?}, listed={}", hex(&serial), v, want_revoked),
							);
						}
					},
				}
			}
			if crate::ossl::webpki_supports(case.key.sig) && s.issuer_ku == 0 {
				match crate::ossl::webpki_verify_with_crl(leaf.der(), issuer.der(), crl.der(), at) {
					Err(e) => ctx.note(format!("webpki revocation harness: {}", e)),
					Ok(v) => {
						ctx.count("eval:webpki_path_validations_with_crl");
						let revoked = matches!(&v, Err(w) if w.contains("CertRevoked"));
						if revoked != want_revoked || (v.is_err() && !revoked) {
							bad(
								"webpki-path-revocation",
								format!("webpki verify_for_usage with the CRL for serial {}: {:?}, listed={}", hex(&serial), v, want_revoked),
							);
						}
					},
				}
			}
		}
		let _ = std::fs::remove_file(&crl_file);
	}
	// webpki as a second revocation checker, when the CRL is within what webpki accepts
	if s.number.len() <= 20 && x509::strip_zeros(&s.number).len() < 20 {
		use webpki::CertRevocationList;
		match webpki::BorrowedCertRevocationList::from_der(crl.der()) {
			Err(e) => ctx.note(format!("webpki does not parse this CRL ({:?}); not used as a checker for it", e)),
			Ok(wc) => {
				let wc: CertRevocationList = wc.into();
				for r in s.revoked.iter().take(20) {
					// webpki compares the DER content octets of the serial
					let mag = x509::strip_zeros(&r.serial);
					let mut content = if mag.is_empty() { vec![0] } else { mag.clone() };
					if content[0] & 0x80 != 0 {
						content.insert(0, 0);
					}
					ctx.count("eval:webpki_revocation_lookups");
					match wc.find_serial(&content) {
						Ok(Some(_)) => {},
						Ok(None) => bad("webpki-revocation-lookup", format!("webpki does not find listed serial {}", hex(&content))),
						Err(e) => ctx.note(format!("webpki find_serial error {:?}", e)),
					}
				}
				let absent = [0x7fu8, 0x01, 0x02, 0x03, 0x04, 0x05, 0x06, 0x07, 0x08, 0x09, 0x0a];
				if !s.revoked.iter().any(|r| x509::strip_zeros(&r.serial) == absent) {
					if let Ok(Some(_)) = wc.find_serial(&absent) {
						bad("webpki-revocation-lookup", "webpki finds a serial that is not listed".into());
					}
				}
			},
		}
	}
}

pub fn check_c04(ctx: &Ctx, case: &CrlCase<'_>, crl: &CertificateRevocationList) {
	let txt = case.text();
	let mut errs = Vec::new();
	derx::check_canonical(crl.der(), "crl", &mut errs);
	match x509::parse_crl(crl.der()) {
		Err(e) => errs.push(format!("schema: {}", e)),
		Ok(v) => {
			for e in v.exts.iter().flatten() {
				x509::check_known_extension(e, &mut errs, &format!("crl-ext{:?}", e.oid));
			}
			for r in v.revoked.iter().flatten() {
				for e in r.exts.iter().flatten() {
					x509::check_known_extension(e, &mut errs, &format!("entry-ext{:?}", e.oid));
				}
			}
			check_sig_value(case.key.sig, &v.sig, &mut errs);
		},
	}
	ctx.count("eval:c04_crls_walked");
	for e in errs {
		ctx.violation(&format!("c04:crl:{}", classify(&e)), &case.id, &txt, &e);
	}
}

pub fn check_c05(ctx: &Ctx, case: &CrlCase<'_>, crl: &CertificateRevocationList) {
	let txt = || case.text();
	ctx.count("eval:c05_crls");
	let v = match x509::parse_crl(crl.der()) {
		Ok(v) => v,
		Err(e) => return ctx.violation("c05:crl-undecodable", &case.id, &txt(), &e),
	};
	let mut bad = |what: &str, d: String| ctx.violation(&format!("c05:crl-{}", what), &case.id, &txt(), &d);
	if v.version != Some(1) {
		bad("version", format!("version field {:?} (v2 = 1)", v.version));
	}
	if v.next_update.is_none() {
		bad("next-update-missing", "nextUpdate absent".into());
	}
	let empty = Vec::new();
	let exts = v.exts.as_ref().unwrap_or(&empty);
	let crit = |oid: &[u64]| exts.iter().find(|e| e.oid == oid).map(|e| e.critical);
	match crit(x509::OID_AKI) {
		Some(false) => {},
		o => bad("aki", format!("authority key identifier critical flag {:?} (must be present, non-critical)", o)),
	}
	match crit(x509::OID_CRL_NUMBER) {
		Some(false) => {},
		o => bad("crl-number", format!("CRL number critical flag {:?} (must be present, non-critical)", o)),
	}
	if case.spec.idp.is_some() && crit(x509::OID_IDP) != Some(true) {
		bad("idp-not-critical", format!("{:?}", crit(x509::OID_IDP)));
	}
	if case.spec.revoked.is_empty() {
		ctx.count("eval:c05_empty_crls");
		if v.revoked.is_some() {
			bad("empty-revoked-list-present", "revokedCertificates present with nothing revoked".into());
		}
	} else if v.revoked.as_ref().map_or(true, |r| r.is_empty()) {
		bad("revoked-list-missing", "revokedCertificates absent or empty although entries were given".into());
	}
	let mut oids: Vec<&Vec<u64>> = exts.iter().map(|e| &e.oid).collect();
	oids.sort();
	if oids.windows(2).any(|w| w[0] == w[1]) {
		bad("duplicate-extension", format!("{:?}", oids));
	}
}

pub fn check_c01(ctx: &Ctx, case: &CrlCase<'_>, crl: &CertificateRevocationList, log_before: usize) {
	check_signed(ctx, &case.id, &case.text(), "crl", crl.der(), case.key, log_before, |der| {
		x509::parse_crl(der).map(|v| v.inner_alg_raw)
	});
}

fn gen_rev(rng: &mut Rng) -> RevSpec {
	RevSpec {
		serial: {
			let mut s = gen_serial(rng);
			if s.is_empty() && rng.chance(3, 4) {
				s = vec![rng.below(255) as u8 + 1];
			}
			s
		},
		time: gen_time(rng),
		reason: if rng.chance(1, 2) { Some(*rng.pick(&REASONS)) } else { None },
		invalidity: if rng.chance(1, 3) { Some(gen_time(rng)) } else { None },
	}
}

fn base_spec(rng: &mut Rng) -> CrlSpec {
	let this = TimeSpec::utc(1_700_000_000 + rng.range(0, 1_000_000));
	CrlSpec {
		next_update: TimeSpec::utc(this.unix + 86_400),
		this_update: this,
		number: vec![1 + rng.below(200) as u8],
		idp: None,
		revoked: vec![],
		kid: default_kid(),
		issuer_ku: 0,
	}
}

pub fn gen_case<'a>(pool: &'a [PoolKey], workload: &str, seed: u64, index: u64) -> Option<CrlCase<'a>> {
	let id = CaseId::new(workload, seed, index);
	let mut rng = id.rng();
	let mut spec = base_spec(&mut rng);
	let mut key = rng.pick(pool);
	let mut issuer_name = gen_name(&mut rng, 5);
	if issuer_name.is_empty() {
		issuer_name = ParamSpec::minimal().subject;
	}
	let mut issuer_kid = gen_kid(&mut rng);
	let align_kid = rng.chance(1, 2);
	if rng.chance(1, 2) {
		issuer_name = vec![AttrSpec { ty: DnTy::Cn, kind: StrKind::Utf8, text: format!("crl issuer {}", index) }];
	}
	match workload {
		// reason (none + ten codes) x invalidity date present/absent, single entry and mixed in a list
		"entry-lattice" => {
			if index >= 22 * 2 {
				return None;
			}
			let k = index % 22;
			let reason = if k % 11 == 0 { None } else { Some(REASONS[(k % 11 - 1) as usize]) };
			let invalidity = if k / 11 == 1 {
				// one date in the UTCTime range, one outside: both must come out as GeneralizedTime
				Some(TimeSpec::utc(if index % 2 == 0 { 1_701_388_800 } else { 2_600_000_000 }))
			} else {
				None
			};
			let mut e = gen_rev(&mut rng);
			e.reason = reason;
			e.invalidity = invalidity;
			spec.revoked = vec![e];
			if index >= 22 {
				for _ in 0..3 {
					spec.revoked.push(gen_rev(&mut rng));
				}
				rng.shuffle(&mut spec.revoked);
			}
		},
		// orderings of thisUpdate/nextUpdate incl. equality and sub-second differences
		"updates" => {
			let base = 1_700_000_000i64 + index as i64 * 977;
			let (t, n): (TimeSpec, TimeSpec) = match index % 12 {
				0 => (TimeSpec { unix: base, nanos: 100_000_000, offset: 0 }, TimeSpec { unix: base, nanos: 900_000_000, offset: 0 }),
				1 => (TimeSpec { unix: base, nanos: 0, offset: 0 }, TimeSpec { unix: base, nanos: 1, offset: 0 }),
				2 => (TimeSpec { unix: base, nanos: 999_999_999, offset: 0 }, TimeSpec { unix: base + 1, nanos: 0, offset: 0 }),
				3 => (TimeSpec { unix: base, nanos: 0, offset: 0 }, TimeSpec { unix: base, nanos: 0, offset: 0 }),
				4 => (TimeSpec { unix: base, nanos: 0, offset: 3600 }, TimeSpec { unix: base, nanos: 5, offset: -3600 }),
				5 => (TimeSpec { unix: base + 10, nanos: 0, offset: 0 }, TimeSpec { unix: base, nanos: 0, offset: 0 }),
				6 => (TimeSpec { unix: base, nanos: 500_000_000, offset: 0 }, TimeSpec { unix: base + 1, nanos: 400_000_000, offset: 0 }),
				7 => (TimeSpec { unix: base, nanos: 0, offset: 0 }, TimeSpec { unix: base + 1, nanos: 0, offset: 0 }),
				8 => (TimeSpec { unix: base, nanos: rng.below(1_000_000_000) as u32, offset: 0 }, TimeSpec { unix: base, nanos: rng.below(1_000_000_000) as u32, offset: 0 }),
				9 => (TimeSpec { unix: base, nanos: 0, offset: 93599 }, TimeSpec { unix: base + 1, nanos: 0, offset: -93599 }),
				10 => (TimeSpec { unix: base + 1, nanos: 1, offset: 0 }, TimeSpec { unix: base + 1, nanos: 0, offset: 0 }),
				_ => (gen_time(&mut rng), gen_time(&mut rng)),
			};
			if index >= 12 * 40 {
				return None;
			}
			spec.this_update = t;
			spec.next_update = n;
			if index % 3 == 0 {
				spec.revoked = vec![gen_rev(&mut rng)];
			}
		},
		// issuer key-usage sets: all 512 subsets
		"issuer-ku" => {
			if index >= 512 {
				return None;
			}
			spec.issuer_ku = index as u16;
		},
		// serial and CRL-number shapes
		"serials" => {
			if index >= 300 {
				return None;
			}
			spec.number = gen_serial(&mut rng);
			spec.revoked = (0..1 + rng.below(4))
				.map(|_| {
					let mut r = gen_rev(&mut rng);
					r.serial = gen_serial(&mut rng);
					r
				})
				.collect();
		},
		// list sizes 0..200, scopes, key-id methods
		"sizes" => {
			if index >= 201 {
				return None;
			}
			spec.revoked = (0..index).map(|_| gen_rev(&mut rng)).collect();
			spec.idp = match index % 4 {
				0 => None,
				k => Some((vec![format!("http://{}/crl", gen_host(&mut rng))], (k - 1) as u8)),
			};
			spec.kid = gen_kid(&mut rng);
		},
		// CRLs beyond 64 KiB
		"huge" => {
			if index >= 2 {
				return None;
			}
			spec.revoked = (0..3500 + index * 700).map(|_| gen_rev(&mut rng)).collect();
		},
		"keys" => {
			if index >= pool.len() as u64 * 2 {
				return None;
			}
			key = &pool[(index % pool.len() as u64) as usize];
			spec.revoked = (0..index % 3).map(|_| gen_rev(&mut rng)).collect();
			spec.kid = match index % 4 {
				0 => KidSpec::Sha256,
				1 => KidSpec::Sha384,
				2 => KidSpec::Sha512,
				_ => KidSpec::Pre(rng.bytes(20)),
			};
			issuer_kid = match (index / 4) % 4 {
				0 => KidSpec::Sha512,
				1 => KidSpec::Pre(rng.bytes(8)),
				2 => KidSpec::Sha256,
				_ => KidSpec::Sha384,
			};
		},
		"random" => {
			spec.this_update = gen_time(&mut rng);
			spec.next_update = if rng.chance(5, 6) {
				let d = 1 + rng.below(100_000_000) as i64;
				let n = TimeSpec {
					unix: (spec.this_update.unix + d).min(253402300799),
					nanos: rng.below(1_000_000_000) as u32,
					offset: 0,
				};
				n
			} else {
				gen_time(&mut rng)
			};
			spec.number = gen_serial(&mut rng);
			spec.revoked = (0..match rng.below(10) {
				0 => 0,
				1 => 60,
				_ => rng.below(8),
			})
				.map(|_| gen_rev(&mut rng))
				.collect();
			spec.idp = if rng.chance(1, 2) {
				Some(((0..1 + rng.below(3)).map(|_| format!("ldap://{}/{}", gen_host(&mut rng), gen_ascii(&mut rng, 8))).collect(), rng.below(3) as u8))
			} else {
				None
			};
			spec.kid = gen_kid(&mut rng);
			spec.issuer_ku = match rng.below(6) {
				0 => rng.below(512) as u16,
				1 => 0b0110_0000,
				_ => 0,
			};
		},
		_ => return None,
	}
	if align_kid && workload != "keys" {
		issuer_kid = spec.kid.clone();
	}
	Some(CrlCase {
		id,
		spec,
		key,
		issuer_name,
		issuer_kid,
	})
}

pub const WORKLOADS: [&str; 8] = ["entry-lattice", "updates", "issuer-ku", "serials", "sizes", "keys", "huge", "random"];

pub fn run(ctx: &Ctx, prop: Prop, pool: &[PoolKey], n_random: u64) {
	for wl in WORKLOADS {
		let name = format!("crl-{}", wl);
		if let Some(r) = &ctx.replay {
			if r.workload != name {
				continue;
			}
		}
		let count = (0..if wl == "random" { n_random } else { 100_000 })
			.take_while(|i| wl == "random" || gen_case(pool, wl, ctx.seed, *i).is_some())
			.count() as u64;
		let serial: std::sync::Mutex<()> = std::sync::Mutex::new(());
		par_for(count, ctx.threads, |i| {
			if let Some(r) = &ctx.replay {
				if r.index != i {
					return;
				}
			}
			let mut case = match gen_case(pool, wl, ctx.seed, i) {
				Some(c) => c,
				None => return,
			};
			case.id.workload = name.clone();
			let _g = if case.key.is_remote() { Some(serial.lock().unwrap()) } else { None };
			// the issuer certificate is signed by the same key: count sign calls after it exists
			let out = {
				let issuer = match case.issuer_cert() {
					Ok(i) => i,
					Err(e) => {
						ctx.violation(
							&format!("{}:crl-issuer-setup", prop_tag(prop)),
							&case.id,
							&case.text(),
							&format!("generating the issuer certificate from well-formed parameters failed: {}", e),
						);
						return;
					},
				};
				let log_before = case.key.remote_log.as_ref().map_or(0, |l| l.lock().unwrap().msgs.len());
				let params = case.spec.to_rcgen();
				let o = match crate::guard(|| params.signed_by(&issuer, &case.key.kp)) {
					Err(p) => Outcome::Panic(p),
					Ok(Err(e)) => Outcome::Err(e.to_string()),
					Ok(Ok(c)) => Outcome::Ok(c, issuer),
				};
				(o, log_before)
			};
			let (out, log_before) = out;
			ctx.count(&format!("eval:crl:{}", wl));
			if wl == "random" {
				ctx.distinct(crate::util::fnv64(case.text().as_bytes()));
			} else {
				ctx.count(&format!("dist:crl-{}", wl));
			}
			ctx.sample(|| format!("{}#{}: {}", name, i, crate::util::clip(&case.text(), 600)));
			let tag = prop_tag(prop);
			let must_refuse = case.spec.must_refuse();
			match out {
				Outcome::Panic(p) => ctx.violation(&format!("{}:crl-panic", tag), &case.id, &case.text(), &p),
				Outcome::Err(e) => {
					if !must_refuse {
						ctx.violation(&format!("{}:crl-refused", tag), &case.id, &case.text(), &format!("valid CRL parameters were refused: {}", e));
					} else {
						ctx.count("eval:crl_refusals_observed");
					}
				},
				Outcome::Ok(crl, issuer) => {
					if must_refuse {
						if prop == Prop::C08 {
							let why = if case.spec.next_update.unix <= case.spec.this_update.unix {
								"nextUpdate is not later than thisUpdate once encoded"
							} else {
								"the issuer declares key usages without cRLSign"
							};
							ctx.violation(&format!("c08:not-refused:{}", if why.starts_with("next") { "updates" } else { "crlsign" }), &case.id, &case.text(), why);
						}
						return;
					}
					match prop {
						Prop::C01 => check_c01(ctx, &case, &crl, log_before),
						Prop::C08 => check_c08(ctx, &case, &crl, &issuer),
						Prop::C04 => check_c04(ctx, &case, &crl),
						Prop::C05 => check_c05(ctx, &case, &crl),
						_ => {},
					}
				},
			}
		});
	}
	let _ = build;
	if prop == Prop::C08 && ctx.replay.as_ref().map_or(true, |r| r.workload == "crl-imported-issuer") {
		imported_issuers(ctx, pool);
	}
}

/// C08, refusal rule with issuers that were *imported*: a foreign CA certificate (extensions in any
/// order) whose key usages lack cRLSign must not be able to sign a CRL after `from_ca_cert_der`.
fn imported_issuers(ctx: &Ctx, pool: &[PoolKey]) {
	let locals: Vec<&PoolKey> = pool.iter().filter(|k| !k.is_remote()).collect();
	if locals.is_empty() {
		return;
	}
	par_for(ctx.scale(300, 6_000), ctx.threads, |i| {
		let case = CaseId::new("crl-imported-issuer", ctx.seed, i);
		if let Some(r) = &ctx.replay {
			if r.index != i {
				return;
			}
		}
		let mut rng = case.rng();
		let key = locals[(i % locals.len() as u64) as usize];
		// three quarters with a plain subject (so that the import is not refused for an unrelated reason)
		let forced: &[(&str, openssl::asn1::Asn1Type, &str)] =
			if i % 4 != 0 { &[("O", openssl::asn1::Asn1Type::UTF8STRING, "verif"), ("CN", openssl::asn1::Asn1Type::UTF8STRING, "imported issuer")] } else { &[] };
		let ca = match crate::mon::imports::make_ossl_ca_with(&mut rng, key, forced) {
			Ok(c) => c,
			Err(_) => return,
		};
		let text = format!("key={} foreign CA: ku={:#b} ski={} subject={:?} der={}", key.label, ca.ku, ca.ski, ca.subject, hex(&ca.der));
		let der = pki_types::CertificateDer::from(ca.der.clone());
		let r = crate::guard(|| -> Result<Option<bool>, String> {
			let imp = match rcgen::CertificateParams::from_ca_cert_der(&der) {
				Ok(p) => p,
				Err(_) => return Ok(None),
			};
			let issuer = imp.self_signed(&key.kp).map_err(|e| format!("re-creating the imported CA: {}", e))?;
			let crl = rcgen::CertificateRevocationListParams {
				this_update: TimeSpec::utc(1_700_000_000).to_time().unwrap(),
				next_update: TimeSpec::utc(1_700_086_400).to_time().unwrap(),
				crl_number: rcgen::SerialNumber::from(1u64),
				issuing_distribution_point: None,
				revoked_certs: vec![],
				key_identifier_method: rcgen::KeyIdMethod::Sha256,
			};
			Ok(Some(crl.signed_by(&issuer, &key.kp).is_ok()))
		});
		ctx.count("eval:crl:imported-issuer");
		let lacks_crl_sign = ca.ku != 0 && ca.ku & 0b0100_0000 == 0;
		match r {
			Err(p) => ctx.violation("c08:crl-panic", &case, &text, &p),
			Ok(Err(e)) => ctx.violation("c08:imported-issuer-setup", &case, &text, &e),
			Ok(Ok(None)) => ctx.count("outcome:imported-issuer:import-refused"),
			Ok(Ok(Some(signed))) => {
				if signed && lacks_crl_sign {
					ctx.violation("c08:not-refused:crlsign", &case, &text, "the imported issuer certificate declares key usages without cRLSign, yet a CRL was produced");
				} else if !signed && !lacks_crl_sign {
					ctx.violation("c08:crl-refused", &case, &text, "valid CRL parameters were refused under an imported issuer");
				} else if signed {
					ctx.count("outcome:imported-issuer:signed");
				} else {
					ctx.count("outcome:imported-issuer:refused-no-crlsign");
				}
			},
		}
	});
}
