//! Shared certificate workload: generates `ParamSpec` cases, builds real certificates with pool
//! keys (self-signed / issuer-signed, three public-key sources) and hands each outcome to the
//! checker of the property being monitored (C01, C02, C04, C05).
#![cfg(all(feature = "crypto", feature = "ossl"))]

use rcgen::{Certificate, CertificateParams, CertificateSigningRequestParams, SubjectPublicKeyInfo};

use crate::ctx::{par_for, CaseId, Ctx};
use crate::keys::PoolKey;
use crate::ossl::{self, SigAlg};
use crate::spec::*;
use crate::util::{hex, Rng};
use crate::x509::{self, CertView, Ext};
use crate::derx;

#[derive(Clone, Copy, Debug, PartialEq, Eq)]
pub enum Prop {
	C01,
	C02,
	C04,
	C05,
	C07,
	C08,
}

#[derive(Clone, Copy, Debug, PartialEq, Eq)]
pub enum PkSource {
	KeyPair,
	Spki,
	/// the public key comes out of a parsed CSR, issuance through `CertificateParams::signed_by`
	Csr,
	/// issuance through `CertificateSigningRequestParams::signed_by` (the parsed request's `params`
	/// replaced by the case's parameters)
	CsrIssue,
}

pub struct Issuer<'a> {
	pub spec: ParamSpec,
	pub key: &'a PoolKey,
	pub cert: Certificate,
	pub view: CertView,
}

pub struct CertCase<'a> {
	pub id: CaseId,
	pub spec: ParamSpec,
	pub subject_key: &'a PoolKey,
	pub source: PkSource,
	pub issuer: Option<&'a Issuer<'a>>,
}

impl<'a> CertCase<'a> {
	pub fn text(&self) -> String {
		format!(
			"subject_key={} source={:?} issuer={} spec={:?}",
			self.subject_key.label,
			self.source,
			self.issuer.map(|i| i.key.label.clone()).unwrap_or_else(|| "self".into()),
			self.spec
		)
	}
	pub fn signer(&self) -> &PoolKey {
		self.issuer.map(|i| i.key).unwrap_or(self.subject_key)
	}
}

/// CA issuers used by the workload: one per pool key, with varied names and key-id methods
pub fn make_issuers<'a>(ctx: &Ctx, pool: &'a [PoolKey], seed: u64) -> Vec<Issuer<'a>> {
	let mut out = Vec::new();
	for (i, k) in pool.iter().enumerate() {
		let mut rng = Rng::derive(seed, "issuer", i as u64);
		let mut spec = ParamSpec::minimal();
		spec.subject = gen_name(&mut rng, 6);
		if spec.subject.is_empty() && i % 5 != 0 {
			spec.subject = ParamSpec::minimal().subject;
		}
		spec.is_ca = IsCaSpec::Ca(None);
		spec.kid = match i % 4 {
			0 => KidSpec::Sha256,
			1 => KidSpec::Sha384,
			2 => KidSpec::Sha512,
			_ => KidSpec::Pre(rng.bytes(20)),
		};
		spec.ku = if i % 3 == 0 { 0 } else { 0b0110_0001 }; // digitalSignature, keyCertSign, cRLSign
		// a well-formed issuer that cannot be generated is a finding of whatever property is being monitored
		let made = crate::guard(|| spec.to_rcgen(None).self_signed(&k.kp).map_err(|e| e.to_string()));
		let cert = match made {
			Ok(Ok(c)) => c,
			other => {
				ctx.violation(
					&format!("{}:issuer-setup", ctx.prop.to_lowercase()),
					&CaseId::new("issuer", seed, i as u64),
					&format!("key={} spec={:?}", k.label, spec),
					&format!("generating a CA certificate from well-formed parameters failed: {:?}", other.map(|x| x.map(|_| ()))),
				);
				spec.subject = ParamSpec::minimal().subject;
				match crate::guard(|| spec.to_rcgen(None).self_signed(&k.kp)) {
					Ok(Ok(c)) => c,
					_ => continue,
				}
			},
		};
		let view = match x509::parse_certificate(cert.der()) {
			Ok(v) => v,
			Err(e) => {
				ctx.violation(&format!("{}:issuer-setup", ctx.prop.to_lowercase()), &CaseId::new("issuer", seed, i as u64), &format!("{:?}", spec), &e);
				continue;
			},
		};
		out.push(Issuer { spec, key: k, cert, view });
	}
	out
}

pub enum Outcome {
	Panic(String),
	Err(String),
	Ok(Certificate, CertificateParams),
}

pub fn build(case: &CertCase<'_>) -> Outcome {
	let mut rng = case.id.rng();
	let params = case.spec.to_rcgen(Some(&mut rng));
	let input = params.clone();
	let r = crate::guard(|| -> Result<Certificate, String> {
		match (case.issuer, case.source) {
			(None, _) => params.self_signed(&case.subject_key.kp).map_err(|e| e.to_string()),
			(Some(iss), PkSource::KeyPair) => params
				.signed_by(&case.subject_key.kp, &iss.cert, &iss.key.kp)
				.map_err(|e| e.to_string()),
			(Some(iss), PkSource::Spki) => {
				let spki = SubjectPublicKeyInfo::from_der(&case.subject_key.kp.public_key_der())
					.map_err(|e| format!("SubjectPublicKeyInfo::from_der of our own key failed: {}", e))?;
				params.signed_by(&spki, &iss.cert, &iss.key.kp).map_err(|e| e.to_string())
			},
			(Some(iss), PkSource::Csr) => {
				let csr = CertificateParams::default()
					.serialize_request(&case.subject_key.kp)
					.map_err(|e| format!("serialize_request failed: {}", e))?;
				let parsed = CertificateSigningRequestParams::from_der(csr.der())
					.map_err(|e| format!("parsing our own CSR failed: {}", e))?;
				params
					.signed_by(&parsed.public_key, &iss.cert, &iss.key.kp)
					.map_err(|e| e.to_string())
			},
			(Some(iss), PkSource::CsrIssue) => issue_via_csr(params, &case.subject_key.kp, &iss.cert, &iss.key.kp),
		}
	});
	match r {
		Err(p) => Outcome::Panic(p),
		Ok(Err(e)) => Outcome::Err(e),
		Ok(Ok(c)) => Outcome::Ok(c, input),
	}
}

/// The third issuance route: a request made by the subject key is parsed, its `params` are replaced
/// by `params`, and the certificate is issued with `CertificateSigningRequestParams::signed_by`.
pub fn issue_via_csr(params: CertificateParams, subject: &rcgen::KeyPair, issuer: &Certificate, issuer_key: &rcgen::KeyPair) -> Result<Certificate, String> {
	let csr = CertificateParams::default().serialize_request(subject).map_err(|e| format!("serialize_request failed: {}", e))?;
	let mut parsed = CertificateSigningRequestParams::from_der(csr.der()).map_err(|e| format!("parsing our own CSR failed: {}", e))?;
	parsed.params = params;
	parsed.signed_by(issuer, issuer_key).map_err(|e| e.to_string())
}

/// Issue through one of the three routes (0 key pair, 1 SubjectPublicKeyInfo, 2 CSR); routes that
/// cannot apply to this subject key (remote key, P-521 request: known finding of C07) fall back to 0.
pub fn issue_via(route: u64, params: CertificateParams, subject: &PoolKey, issuer: &Certificate, issuer_key: &rcgen::KeyPair) -> Result<Certificate, String> {
	match route % 3 {
		1 => {
			let spki = SubjectPublicKeyInfo::from_der(&subject.kp.public_key_der()).map_err(|e| format!("SubjectPublicKeyInfo::from_der of our own key failed: {}", e))?;
			params.signed_by(&spki, issuer, issuer_key).map_err(|e| e.to_string())
		},
		2 if !subject.is_remote() && subject.sig != SigAlg::EcdsaSha512 => issue_via_csr(params, &subject.kp, issuer, issuer_key),
		_ => params.signed_by(&subject.kp, issuer, issuer_key).map_err(|e| e.to_string()),
	}
}

fn find<'a>(exts: &'a [Ext], oid: &[u64]) -> Vec<&'a Ext> {
	exts.iter().filter(|e| e.oid == oid).collect()
}

fn sorted(mut v: Vec<String>) -> Vec<String> {
	v.sort();
	v
}

/// C02: the decoded certificate says exactly what the spec says.
pub fn check_c02(ctx: &Ctx, case: &CertCase<'_>, cert: &Certificate, input: &CertificateParams) {
	let txt = || case.text();
	let v = match x509::parse_certificate(cert.der()) {
		Ok(v) => v,
		Err(e) => return ctx.violation("c02:undecodable", &case.id, &txt(), &e),
	};
	let s = &case.spec;
	let mut bad = |what: &str, detail: String| ctx.violation(&format!("c02:{}", what), &case.id, &txt(), &detail);

	// serial
	if let Some(ser) = &s.serial {
		let want = x509::strip_zeros(ser);
		if v.serial[0] & 0x80 != 0 || x509::int_magnitude(&v.serial) != want {
			bad("serial", format!("encoded {} requested {}", hex(&v.serial), hex(ser)));
		}
	}
	// validity
	if v.not_before.unix != s.not_before.unix || v.not_after.unix != s.not_after.unix {
		bad(
			"validity",
			format!("encoded {}..{} requested {}..{}", v.not_before.unix, v.not_after.unix, s.not_before.unix, s.not_after.unix),
		);
	}
	// subject: types, string kinds, values, order
	if name_key(&v.subject) != name_spec_key(&s.subject) {
		bad("subject", format!("encoded {} requested {}", name_key(&v.subject), name_spec_key(&s.subject)));
	}
	// public key
	if v.spki.raw != case.subject_key.spki {
		bad("spki", format!("encoded {} key {}", hex(&v.spki.raw), hex(&case.subject_key.spki)));
	}
	// issuer name
	let want_issuer_raw = match case.issuer {
		Some(i) => i.view.subject.raw.clone(),
		None => v.subject.raw.clone(),
	};
	if v.issuer.raw != want_issuer_raw {
		bad("issuer-name", format!("encoded {} expected {}", hex(&v.issuer.raw), hex(&want_issuer_raw)));
	}

	let empty: Vec<Ext> = Vec::new();
	let exts = v.exts.as_ref().unwrap_or(&empty);
	let mut accounted: Vec<Vec<u64>> = Vec::new();
	let mut one = |oid: &[u64], expected: bool, what: &str, bad: &mut dyn FnMut(&str, String)| -> Option<Ext> {
		let f = find(exts, oid);
		accounted.push(oid.to_vec());
		if f.len() > 1 {
			bad(&format!("{}-duplicated", what), format!("{} occurrences", f.len()));
		}
		match (f.first(), expected) {
			(Some(e), true) => Some((*e).clone()),
			(None, false) => None,
			(Some(_), false) => {
				bad(&format!("{}-unrequested", what), "extension present but not requested".into());
				None
			},
			(None, true) => {
				bad(&format!("{}-dropped", what), "requested but absent from the certificate".into());
				None
			},
		}
	};

	// SAN
	if let Some(e) = one(x509::OID_SAN, !s.sans.is_empty(), "san", &mut bad) {
		match x509::parse_san(&e.value) {
			Err(m) => bad("san-undecodable", m),
			Ok(names) => {
				let got = sorted(names.iter().map(gn_key).collect());
				let want = sorted(s.sans.iter().map(|x| x.key()).collect());
				if got != want {
					bad("san-content", format!("encoded {:?} requested {:?}", got, want));
				}
			},
		}
	}
	// key usage
	if let Some(e) = one(x509::OID_KU, s.ku != 0, "ku", &mut bad) {
		match x509::parse_ku(&e.value) {
			// a non-canonical bit string is C04's business; decode leniently here
			Err(_) => match ku_lenient(&e.value) {
				Some(m) if m == s.ku => {},
				other => bad("ku-content", format!("encoded {:?} requested {:#b}", other, s.ku)),
			},
			Ok(m) => {
				if m != s.ku {
					bad("ku-content", format!("encoded {:#011b} requested {:#011b} (bit i = named bit i)", m, s.ku));
				}
			},
		}
	}
	// extended key usage
	if let Some(e) = one(x509::OID_EKU, !s.ekus.is_empty(), "eku", &mut bad) {
		match x509::parse_eku(&e.value) {
			Err(m) => bad("eku-undecodable", m),
			Ok(oids) => {
				let got = sorted(oids.iter().map(|o| format!("{:?}", o)).collect());
				let want = sorted(s.ekus.iter().map(|o| format!("{:?}", o.oid())).collect());
				if got != want {
					bad("eku-content", format!("encoded {:?} requested {:?}", got, want));
				}
			},
		}
	}
	// basic constraints
	if let Some(e) = one(x509::OID_BC, s.is_ca != IsCaSpec::No, "bc", &mut bad) {
		let dec = x509::parse_bc(&e.value).or_else(|_| bc_lenient(&e.value).ok_or("undecodable".to_string()));
		let want = match &s.is_ca {
			IsCaSpec::Ca(p) => (true, p.map(|x| x as u64)),
			_ => (false, None),
		};
		match dec {
			Err(m) => bad("bc-undecodable", m),
			Ok(got) => {
				if got != want {
					bad("bc-content", format!("encoded (cA,pathLen)={:?} requested {:?}", got, want));
				}
			},
		}
	}
	// name constraints
	let nc_expected = s.nc.as_ref().map_or(false, |(a, b)| !a.is_empty() || !b.is_empty());
	if let Some(e) = one(x509::OID_NC, nc_expected, "nc", &mut bad) {
		match x509::parse_nc(&e.value) {
			Err(m) => bad("nc-undecodable", m),
			Ok((p, x)) => {
				let (sp, sx) = s.nc.as_ref().unwrap();
				let gotp = sorted(p.iter().map(gn_key).collect());
				let gotx = sorted(x.iter().map(gn_key).collect());
				let wantp = sorted(sp.iter().map(|t| t.key()).collect());
				let wantx = sorted(sx.iter().map(|t| t.key()).collect());
				if gotp != wantp {
					bad("nc-permitted", format!("encoded {:?} requested {:?}", gotp, wantp));
				}
				if gotx != wantx {
					bad("nc-excluded", format!("encoded {:?} requested {:?}", gotx, wantx));
				}
			},
		}
	}
	// CRL distribution points
	if let Some(e) = one(x509::OID_CRLDP, !s.crldp.is_empty(), "crldp", &mut bad) {
		match x509::parse_crldp(&e.value) {
			Err(m) => bad("crldp-undecodable", m),
			Ok(points) => {
				let got = sorted(points.iter().map(|p| format!("{:?}", sorted(p.iter().map(gn_key).collect()))).collect());
				let want = sorted(
					s.crldp
						.iter()
						.map(|p| format!("{:?}", sorted(p.iter().map(|u| format!("uri:{}", hex(u.as_bytes()))).collect())))
						.collect(),
				);
				if got != want {
					bad("crldp-content", format!("encoded {:?} requested {:?}", got, want));
				}
			},
		}
	}
	// authority key identifier = the issuer's configured derivation of the issuer's key
	if let Some(e) = one(x509::OID_AKI, s.use_aki, "aki", &mut bad) {
		let (ikid, ispki) = match case.issuer {
			Some(i) => (&i.spec.kid, &i.key.spki),
			None => (&s.kid, &case.subject_key.spki),
		};
		let want = ikid.derive(ispki);
		match x509::parse_aki(&e.value) {
			Err(m) => bad("aki-undecodable", m),
			Ok(got) => {
				if got != want {
					bad("aki-content", format!("encoded {} expected {} (issuer method {:?})", hex(&got), hex(&want), ikid));
				}
			},
		}
	}
	// subject key identifier: required for CAs, wherever present equal to the configured derivation
	let ski = find(exts, x509::OID_SKI);
	accounted.push(x509::OID_SKI.to_vec());
	if ski.len() > 1 {
		bad("ski-duplicated", format!("{} occurrences", ski.len()));
	}
	let want_ski = s.kid.derive(&case.subject_key.spki);
	match ski.first() {
		None => {
			if matches!(s.is_ca, IsCaSpec::Ca(_)) {
				bad("ski-missing-in-ca", "CA certificate without subject key identifier".into());
			}
		},
		Some(e) => match x509::parse_ski(&e.value) {
			Err(m) => bad("ski-undecodable", m),
			Ok(got) => {
				if got != want_ski {
					bad("ski-content", format!("encoded {} expected {} (method {:?})", hex(&got), hex(&want_ski), s.kid));
				}
			},
		},
	}
	// custom extensions: value and criticality
	for c in &s.custom {
		let f = find(exts, &c.oid);
		accounted.push(c.oid.clone());
		if f.len() != 1 {
			bad("custom-count", format!("custom extension {:?} occurs {} times", c.oid, f.len()));
			continue;
		}
		if f[0].value != c.content {
			bad("custom-content", format!("{:?}: encoded {} requested {}", c.oid, hex(&f[0].value), hex(&c.content)));
		}
		if f[0].critical != c.critical {
			bad("custom-criticality", format!("{:?}: encoded critical={} requested {}", c.oid, f[0].critical, c.critical));
		}
	}
	for e in exts {
		if !accounted.contains(&e.oid) {
			bad("unrequested-extension", format!("extension {:?} appears but nothing asked for it", e.oid));
		}
	}
	// the returned value reports what its DER encodes
	if cert.params() != input {
		bad("params-accessor", "cert.params() differs from the parameters given".into());
	}
	let ki = cert.key_identifier();
	if ki != want_ski {
		bad("key-identifier-accessor", format!("key_identifier()={} expected {}", hex(&ki), hex(&want_ski)));
	}

	// second, unrelated decoder: OpenSSL must read the same basic fields
	match openssl::x509::X509::from_der(cert.der()) {
		Err(e) => bad("openssl-rejects", format!("d2i_X509: {}", e)),
		Ok(x) => {
			ctx.count("openssl_crossreads");
			if let Ok(bn) = x.serial_number().to_bn() {
				if bn.to_vec() != x509::int_magnitude(&v.serial) {
					bad("openssl-serial", format!("OpenSSL {} derx {}", hex(&bn.to_vec()), hex(&v.serial)));
				}
			}
			let got: Vec<Vec<u8>> = x.subject_name().entries().map(|e| e.data().as_slice().to_vec()).collect();
			let want: Vec<Vec<u8>> = s.subject.iter().map(|a| a.kind.encode(&a.text)).collect();
			if got != want {
				bad("openssl-subject", format!("OpenSSL reads {:?} requested {:?}", got, want));
			}
			if let Ok(u) = ossl::asn1_time_unix(x.not_before()) {
				if u != s.not_before.unix {
					bad("openssl-notbefore", format!("OpenSSL {} requested {}", u, s.not_before.unix));
				}
			}
			if let Some(names) = x.subject_alt_names() {
				let mut got = Vec::new();
				for n in names.iter() {
					if let Some(d) = n.dnsname() {
						got.push(format!("dns:{}", hex(d.as_bytes())));
					} else if let Some(d) = n.email() {
						got.push(format!("email:{}", hex(d.as_bytes())));
					} else if let Some(d) = n.uri() {
						got.push(format!("uri:{}", hex(d.as_bytes())));
					} else if let Some(d) = n.ipaddress() {
						got.push(format!("ip:{}", hex(d)));
					}
				}
				let want: Vec<String> = s.sans.iter().filter(|x| !matches!(x, SanSpec::Other(..))).map(|x| x.key()).collect();
				if sorted(got.clone()) != sorted(want.clone()) {
					bad("openssl-san", format!("OpenSSL reads {:?} requested {:?}", got, want));
				}
			} else if s.sans.iter().any(|x| !matches!(x, SanSpec::Other(..))) {
				bad("openssl-san", "OpenSSL finds no subjectAltName".into());
			}
		},
	}
}

pub fn ku_lenient(value: &[u8]) -> Option<u16> {
	let t = derx::parse_exact(value, false).ok()?;
	if !t.is_univ(derx::BIT_STRING) || t.content.is_empty() {
		return None;
	}
	let bytes = &t.content[1..];
	let mut m = 0u16;
	for i in 0..(bytes.len() * 8).min(16) {
		if bytes[i / 8] & (0x80 >> (i % 8)) != 0 {
			if i >= 9 {
				return None;
			}
			m |= 1 << i;
		}
	}
	Some(m)
}

fn bc_lenient(value: &[u8]) -> Option<(bool, Option<u64>)> {
	let t = derx::parse_exact(value, false).ok()?;
	let k = t.children(false).ok()?;
	let mut ca = false;
	let mut p = None;
	for e in k {
		if e.is_univ(derx::BOOLEAN) && e.content.len() == 1 {
			ca = e.content[0] != 0;
		} else if e.is_univ(derx::INTEGER) {
			p = Some(e.content.iter().fold(0u64, |a, b| (a << 8) | *b as u64));
		} else {
			return None;
		}
	}
	Some((ca, p))
}

/// C04: canonical DER everywhere, caller-supplied DER embedded verbatim.
pub fn check_c04(ctx: &Ctx, case: &CertCase<'_>, cert: &Certificate) {
	let txt = case.text();
	let mut errs = Vec::new();
	derx::check_canonical(cert.der(), "cert", &mut errs);
	match x509::parse_certificate(cert.der()) {
		Err(e) => errs.push(format!("schema: {}", e)),
		Ok(v) => {
			if let Some(exts) = &v.exts {
				for e in exts {
					x509::check_known_extension(e, &mut errs, &format!("ext{:?}", e.oid));
				}
				for c in &case.spec.custom {
					if !exts.iter().any(|e| e.oid == c.oid && e.value == c.content) {
						errs.push(format!("custom extension {:?} content not embedded byte-for-byte", c.oid));
					}
				}
			}
			check_sig_value(case.signer().sig, &v.sig, &mut errs);
			check_spki_canonical(&v.spki, &mut errs);
		},
	}
	ctx.count("eval:c04_certificates_walked");
	for e in errs {
		let sig = format!("c04:cert:{}", classify(&e));
		ctx.violation(&sig, &case.id, &txt, &e);
	}
}

/// stable class of a canonicity message (text after the location prefix)
pub fn classify(msg: &str) -> String {
	let m = msg.rsplit(": ").next().unwrap_or(msg);
	let words: Vec<&str> = m.split_whitespace().filter(|w| !w.chars().any(|c| c.is_ascii_digit())).take(6).collect();
	words.join("-")
}

pub fn check_sig_value(sig: SigAlg, bits: &[u8], errs: &mut Vec<String>) {
	if matches!(sig, SigAlg::EcdsaSha256 | SigAlg::EcdsaSha384 | SigAlg::EcdsaSha512) {
		let before = errs.len();
		derx::check_canonical(bits, "ecdsa-sig-value", errs);
		if errs.len() == before {
			let ok = derx::parse_exact(bits, true)
				.and_then(|t| {
					t.expect_univ(derx::SEQUENCE, "Ecdsa-Sig-Value")?;
					let k = t.children(true)?;
					if k.len() != 2 || !k.iter().all(|x| x.is_univ(derx::INTEGER)) {
						return Err("Ecdsa-Sig-Value must be SEQUENCE { INTEGER, INTEGER }".to_string());
					}
					Ok(())
				});
			if let Err(e) = ok {
				errs.push(format!("ecdsa-sig-value: {}", e));
			}
		}
	}
}

pub fn check_spki_canonical(spki: &x509::Spki, errs: &mut Vec<String>) {
	// RSA keys carry a DER RSAPublicKey inside the BIT STRING
	if spki.alg_oid == [1, 2, 840, 113549, 1, 1, 1] {
		derx::check_canonical(&spki.key, "rsa-public-key", errs);
		if spki.alg_params.as_deref() != Some(&[0x05, 0x00][..]) {
			errs.push("rsaEncryption parameters must be NULL".into());
		}
	} else if spki.alg_oid == [1, 3, 101, 112] {
		if spki.alg_params.is_some() {
			errs.push("Ed25519 parameters must be absent".into());
		}
	}
}

/// C05: structural MUSTs of the profile.
pub fn check_c05(ctx: &Ctx, case: &CertCase<'_>, cert: &Certificate) {
	let txt = || case.text();
	let v = match x509::parse_certificate(cert.der()).or_else(|_| parse_lenient_for_c05(cert.der())) {
		Ok(v) => v,
		Err(e) => return ctx.violation("c05:undecodable", &case.id, &txt(), &e),
	};
	let s = &case.spec;
	let mut bad = |what: &str, d: String| ctx.violation(&format!("c05:{}", what), &case.id, &txt(), &d);
	if s.serial.is_none() {
		ctx.count("eval:c05_automatic_serials");
		let c = &v.serial;
		if c.len() > 20 {
			bad("auto-serial-too-long", format!("{} content octets: {}", c.len(), hex(c)));
		}
		if c[0] & 0x80 != 0 {
			bad("auto-serial-negative", hex(c));
		}
		if c.iter().all(|b| *b == 0) {
			bad("auto-serial-zero", hex(c));
		}
		// observed shape of the first hash byte, for the evidence
		ctx.count(if c.len() == 20 { "auto_serial_len20" } else { "auto_serial_shorter" });
	}
	if let Some(exts) = &v.exts {
		if v.version != Some(2) {
			bad("version", format!("extensions present but version field is {:?} (v3 = 2)", v.version));
		}
		let crit = |oid: &[u64]| exts.iter().find(|e| e.oid == oid).map(|e| e.critical);
		if let Some(c) = crit(x509::OID_SAN) {
			if c != s.subject.is_empty() {
				bad("san-criticality", format!("critical={} but subject empty={}", c, s.subject.is_empty()));
			}
		}
		if matches!(s.is_ca, IsCaSpec::Ca(_)) && crit(x509::OID_BC) != Some(true) {
			bad("bc-not-critical", format!("{:?}", crit(x509::OID_BC)));
		}
		if let Some(c) = crit(x509::OID_NC) {
			if !c {
				bad("nc-not-critical", "name constraints present and not critical".into());
			}
			let e = exts.iter().find(|e| e.oid == x509::OID_NC).unwrap();
			if e.value == [0x30, 0x00] {
				bad("nc-empty", "empty name constraints value written".into());
			}
		}
		if crit(x509::OID_SKI) == Some(true) {
			bad("ski-critical", "subject key identifier marked critical".into());
		}
		if crit(x509::OID_AKI) == Some(true) {
			bad("aki-critical", "authority key identifier marked critical".into());
		}
		let mut oids: Vec<&Vec<u64>> = exts.iter().map(|e| &e.oid).collect();
		oids.sort();
		for w in oids.windows(2) {
			if w[0] == w[1] && s.custom.iter().filter(|c| &c.oid == w[0]).count() <= 1 {
				bad("duplicate-extension", format!("{:?} occurs twice", w[0]));
			}
		}
	}
	if s.nc.as_ref().map_or(false, |(a, b)| a.is_empty() && b.is_empty()) {
		ctx.count("eval:c05_empty_nc_cases");
		if v.exts.as_ref().map_or(false, |e| e.iter().any(|e| e.oid == x509::OID_NC)) {
			bad("nc-empty", "name constraints extension written for empty constraints".into());
		}
	}
	ctx.count("eval:c05_certificates");
}

/// C05 looks at structure only: tolerate encodings that C04 would flag (e.g. explicit DEFAULT)
fn parse_lenient_for_c05(_der: &[u8]) -> Result<CertView, String> {
	Err("certificate does not decode under the strict schema".into())
}

/// C01: signature verifies over exactly the TBS bytes, identifiers agree and are the registered ones.
pub fn check_c01(ctx: &Ctx, case: &CertCase<'_>, cert: &Certificate, log_before: usize) {
	let signer = case.signer();
	check_signed(
		ctx,
		&case.id,
		&case.text(),
		"cert",
		cert.der(),
		signer,
		log_before,
		|der| x509::parse_certificate(der).map(|v| v.inner_alg_raw),
	);
	// OpenSSL's own X509_verify as a second opinion
	if let (Ok(x), Ok(pk)) = (
		openssl::x509::X509::from_der(cert.der()),
		openssl::pkey::PKey::public_key_from_der(&signer.spki),
	) {
		ctx.count("openssl_x509_verify");
		if !x.verify(&pk).unwrap_or(false) {
			ctx.violation("c01:cert:openssl-x509-verify", &case.id, &case.text(), "X509_verify rejects the certificate under the signer's key");
		}
	}
}

/// Shared by certificates, CSRs and CRLs.
pub fn check_signed(
	ctx: &Ctx,
	id: &CaseId,
	text: &str,
	kind: &str,
	der: &[u8],
	signer: &PoolKey,
	log_before: usize,
	inner_alg: impl Fn(&[u8]) -> Result<Vec<u8>, String>,
) {
	let (tbs, outer_alg, sig) = match x509::split_signed_raw(der, true) {
		Ok(x) => x,
		Err(e) => return ctx.violation(&format!("c01:{}:unsplittable", kind), id, text, &e),
	};
	let want_alg = signer.sig.alg_id_der();
	if outer_alg != want_alg {
		ctx.violation(
			&format!("c01:{}:outer-alg-id", kind),
			id,
			text,
			&format!("outer AlgorithmIdentifier {} is not the registered one {} for {:?}", hex(&outer_alg), hex(&want_alg), signer.sig),
		);
	}
	match inner_alg(der) {
		Err(e) => ctx.violation(&format!("c01:{}:undecodable", kind), id, text, &e),
		Ok(inner) => {
			if kind != "csr" && inner != outer_alg {
				ctx.violation(
					&format!("c01:{}:inner-outer-alg-differ", kind),
					id,
					text,
					&format!("inner {} outer {}", hex(&inner), hex(&outer_alg)),
				);
			}
		},
	}
	ctx.count(&format!("eval:verified:{}:{:?}:{}", kind, signer.sig, if signer.is_remote() { "remote" } else { "local" }));
	match ossl::verify_raw(signer.sig, &signer.spki, &tbs, &sig) {
		Ok(true) => {},
		Ok(false) => ctx.violation(
			&format!("c01:{}:signature-invalid", kind),
			id,
			text,
			&format!("EVP_DigestVerify rejects the signature over the {}-byte to-be-signed part under key {}", tbs.len(), signer.label),
		),
		Err(e) => ctx.violation(&format!("c01:{}:verify-error", kind), id, text, &e),
	}
	if let Some(log) = &signer.remote_log {
		let g = log.lock().unwrap();
		let calls = &g.msgs[log_before.min(g.msgs.len())..];
		// concurrent use of the same remote key is not done in this workload, so the slice is ours
		if calls.len() != 1 {
			ctx.violation(&format!("c01:{}:sign-call-count", kind), id, text, &format!("{} sign calls for one artefact", calls.len()));
		} else if calls[0] != tbs {
			ctx.violation(
				&format!("c01:{}:signed-other-bytes", kind),
				id,
				text,
				&format!("signer was given {} bytes that differ from the {} to-be-signed bytes in the output", calls[0].len(), tbs.len()),
			);
		}
		ctx.count("eval:remote_sign_calls_compared");
	}
}

// ---------------------------------------------------------------------------- workload

pub struct Workload<'a> {
	pub pool: &'a [PoolKey],
	pub issuers: &'a [Issuer<'a>],
}

fn pick_case<'a>(w: &Workload<'a>, id: CaseId, spec: ParamSpec, rng: &mut Rng, allow_remote_subject: bool) -> CertCase<'a> {
	let mut subject_key = rng.pick(w.pool);
	if !allow_remote_subject {
		for _ in 0..20 {
			if !subject_key.is_remote() {
				break;
			}
			subject_key = rng.pick(w.pool);
		}
	}
	let issuer = if rng.chance(1, 2) { Some(rng.pick(w.issuers)) } else { None };
	let source = match (issuer.is_some(), rng.below(5)) {
		(true, 0) => PkSource::Spki,
		// P-521 requests cannot be parsed back by rcgen (known finding of C07): use the SPKI route there
		(true, 1) if !subject_key.is_remote() && subject_key.sig != SigAlg::EcdsaSha512 => PkSource::Csr,
		(true, 2) if !subject_key.is_remote() && subject_key.sig != SigAlg::EcdsaSha512 => PkSource::CsrIssue,
		_ => PkSource::KeyPair,
	};
	CertCase {
		id,
		spec,
		subject_key,
		source,
		issuer,
	}
}

/// Deterministically regenerate case `index` of `workload`.
pub fn gen_case<'a>(w: &Workload<'a>, workload: &str, seed: u64, index: u64) -> Option<CertCase<'a>> {
	let id = CaseId::new(workload, seed, index);
	let mut rng = id.rng();
	let mut spec = ParamSpec::minimal();
	spec.kid = default_kid();
	match workload {
		// every subset of the extension-bearing fields x three IsCa kinds, otherwise default-like
		"lattice" => {
			if index >= 384 {
				return None;
			}
			let pr = Presence::from_bits((index % 128) as u32);
			spec.is_ca = match index / 128 {
				0 => IsCaSpec::No,
				1 => IsCaSpec::ExplicitNo,
				_ => IsCaSpec::Ca(None),
			};
			fill_presence(&mut rng, &mut spec, pr);
			if !pr.nc {
				spec.nc = None;
			}
			// singletons use the plainest possible issuer/key so that nothing else forces an extension
			let mut c = pick_case(w, id, spec, &mut rng, false);
			if index % 2 == 0 {
				c.issuer = None;
				c.source = PkSource::KeyPair;
			}
			Some(c)
		},
		// all 512 key-usage subsets (0 = none), alone
		"ku" => {
			if index >= 512 {
				return None;
			}
			spec.ku = index as u16;
			if index % 3 == 0 {
				spec.subject = gen_name(&mut rng, 3);
			}
			Some(pick_case(w, id, spec, &mut rng, true))
		},
		// all prefix lengths, both families, all four constructors
		"prefix" => {
			if index >= 512 {
				return None;
			}
			let v6 = index >= 256;
			let prefix = (index % 256) as u8;
			let trees: Vec<SubtreeSpec> = (0..5)
				.map(|ctor| {
					SubtreeSpec::Ip(CidrSpec {
						addr: rng.bytes(if v6 { 16 } else { 4 }),
						prefix,
						ctor,
					})
				})
				.collect();
			spec.is_ca = IsCaSpec::Ca(None);
			spec.nc = Some(if index % 2 == 0 { (trees, vec![]) } else { (vec![], trees) });
			Some(pick_case(w, id, spec, &mut rng, true))
		},
		// every path length
		"pathlen" => {
			if index >= 256 {
				return None;
			}
			spec.is_ca = IsCaSpec::Ca(Some(index as u8));
			Some(pick_case(w, id, spec, &mut rng, true))
		},
		// key-identifier methods: 4 subject methods x every issuer (issuers cycle through the 4 methods) and self-signed
		"kid" => {
			let n_iss = w.issuers.len() as u64;
			if index >= 4 * (n_iss + 1) * 3 {
				return None;
			}
			spec.kid = match index % 4 {
				0 => KidSpec::Sha256,
				1 => KidSpec::Sha384,
				2 => KidSpec::Sha512,
				_ => KidSpec::Pre(rng.bytes(1 + (index as usize * 7) % 40)),
			};
			spec.use_aki = true;
			spec.is_ca = match (index / 4 / (n_iss + 1)) % 3 {
				0 => IsCaSpec::Ca(None),
				1 => IsCaSpec::ExplicitNo,
				_ => IsCaSpec::No,
			};
			let which = (index / 4) % (n_iss + 1);
			let mut c = pick_case(w, id, spec, &mut rng, true);
			if which == n_iss {
				c.issuer = None;
				c.source = PkSource::KeyPair;
			} else {
				c.issuer = Some(&w.issuers[which as usize]);
			}
			Some(c)
		},
		// every pool key as subject and as issuer with the three public-key sources
		"keys" => {
			let n = w.pool.len() as u64;
			if index >= n * 5 {
				return None;
			}
			let k = &w.pool[(index % n) as usize];
			let pb = rng.below(128) as u32;
			fill_presence(&mut rng, &mut spec, Presence::from_bits(pb));
			spec.is_ca = gen_is_ca(&mut rng);
			let (issuer, source) = match index / n {
				0 => (None, PkSource::KeyPair),
				1 => (Some(&w.issuers[((index * 7 + 3) % w.issuers.len() as u64) as usize]), PkSource::KeyPair),
				2 => (Some(&w.issuers[((index * 5 + 1) % w.issuers.len() as u64) as usize]), PkSource::Spki),
				4 => (
					Some(&w.issuers[((index * 11 + 4) % w.issuers.len() as u64) as usize]),
					if k.is_remote() || k.sig == SigAlg::EcdsaSha512 { PkSource::KeyPair } else { PkSource::CsrIssue },
				),
				_ => (
					Some(&w.issuers[((index * 3 + 2) % w.issuers.len() as u64) as usize]),
					if k.is_remote() || k.sig == SigAlg::EcdsaSha512 { PkSource::Spki } else { PkSource::Csr },
				),
			};
			Some(CertCase {
				id,
				spec,
				subject_key: k,
				source,
				issuer,
			})
		},
		// artefacts beyond 64 KiB and around the 127/128, 255/256 and 65535/65536 length-octet steps
		"huge" => {
			if index >= 6 {
				return None;
			}
			let n = [3000usize, 2731, 2732, 5, 11, 4100][index as usize];
			spec.sans = (0..n).map(|i| SanSpec::Dns(format!("host-{:06}.example.com", i))).collect();
			if index == 3 {
				spec.subject = vec![AttrSpec { ty: DnTy::Org, kind: StrKind::Utf8, text: "x".repeat(65_500) }];
			}
			Some(pick_case(w, id, spec, &mut rng, true))
		},
		"random" => {
			let spec = gen_params(&mut rng);
			Some(pick_case(w, id, spec, &mut rng, true))
		},
		_ => None,
	}
}


/// Public keys rcgen did not make, handed over as SubjectPublicKeyInfo: curves and key types outside the supported set
/// (secp256k1, brainpool, P-224, P-192, P-521 under ring, Ed448, X25519/X448, DSA-less oddities) next to the supported
/// ones as controls. `SubjectPublicKeyInfo::from_der` may refuse; if it accepts, a certificate issued for that key must
/// carry exactly the bytes that were handed in.
pub fn foreign_subject_keys(ctx: &Ctx, w: &Workload<'_>) {
	use openssl::ec::{EcGroup, EcKey};
	use openssl::nid::Nid;
	use openssl::pkey::PKey;
	let mut inputs: Vec<(String, Vec<u8>)> = Vec::new();
	let curves = [
		("prime256v1", Nid::X9_62_PRIME256V1),
		("secp384r1", Nid::SECP384R1),
		("secp521r1", Nid::SECP521R1),
		("secp256k1", Nid::SECP256K1),
		("secp224r1", Nid::SECP224R1),
		("prime192v1", Nid::X9_62_PRIME192V1),
		("brainpoolP256r1", Nid::BRAINPOOL_P256R1),
		("brainpoolP384r1", Nid::BRAINPOOL_P384R1),
		("brainpoolP512r1", Nid::BRAINPOOL_P512R1),
		("secp384r1-b", Nid::SECP384R1),
		("prime256v1-b", Nid::X9_62_PRIME256V1),
	];
	for (name, nid) in curves {
		let k = EcGroup::from_curve_name(nid).and_then(|g| EcKey::generate(&g)).and_then(PKey::from_ec_key).and_then(|k| k.public_key_to_der());
		match k {
			Ok(d) => inputs.push((format!("ec:{}", name), d)),
			Err(_) => ctx.count("foreign-spki:curve-unavailable-in-openssl"),
		}
	}
	for (name, k) in [("ed25519", PKey::generate_ed25519()), ("ed448", PKey::generate_ed448()), ("x25519", PKey::generate_x25519()), ("x448", PKey::generate_x448())] {
		if let Ok(d) = k.and_then(|k| k.public_key_to_der()) {
			inputs.push((name.to_string(), d));
		}
	}
	// an RSA key under its usual identifier, under rsaEncryption without the NULL parameter, and under id-RSASSA-PSS
	if let Some(k) = w.pool.iter().find(|k| k.spki.len() > 200 && !k.is_remote()) {
		inputs.push(("rsa".into(), k.spki.clone()));
		let with_null = [0x30, 0x0d, 0x06, 0x09, 0x2a, 0x86, 0x48, 0x86, 0xf7, 0x0d, 0x01, 0x01, 0x01, 0x05, 0x00];
		if let Some(pos) = k.spki.windows(with_null.len()).position(|x| x == with_null) {
			let rest = &k.spki[pos + with_null.len()..];
			for (name, alg) in [
				("rsa-no-null", vec![0x30, 0x0b, 0x06, 0x09, 0x2a, 0x86, 0x48, 0x86, 0xf7, 0x0d, 0x01, 0x01, 0x01]),
				("rsa-pss-oid", vec![0x30, 0x0b, 0x06, 0x09, 0x2a, 0x86, 0x48, 0x86, 0xf7, 0x0d, 0x01, 0x01, 0x0a]),
			] {
				let mut body = alg;
				body.extend_from_slice(rest);
				let mut d = vec![0x30, 0x82, (body.len() >> 8) as u8, body.len() as u8];
				d.extend_from_slice(&body);
				inputs.push((name.into(), d));
			}
		}
	}
	let mut order: Vec<usize> = (0..inputs.len()).collect();
	// two passes in different orders: the answer for one key must not depend on the key seen before it
	let mut rng = Rng::new(ctx.seed ^ 0xf0e1);
	for pass in 0..3u64 {
		if pass > 0 {
			for i in (1..order.len()).rev() {
				order.swap(i, rng.below(i as u64 + 1) as usize);
			}
		}
		for (n, &ix) in order.iter().enumerate() {
			let (name, der) = &inputs[ix];
			let id = CaseId::new("foreign-spki", ctx.seed, pass * 100 + n as u64);
			let text = format!("foreign SubjectPublicKeyInfo {} = {} (pass {}, position {})", name, hex(der), pass, n);
			ctx.count("eval:foreign-spki");
			let spki = match crate::guard(|| SubjectPublicKeyInfo::from_der(der)) {
				Err(p) => {
					ctx.violation("c02:foreign-spki-panic", &id, &text, &p);
					continue;
				},
				Ok(Err(_)) => {
					ctx.count(&format!("foreign-spki:refused:{}", name));
					continue;
				},
				Ok(Ok(s)) => s,
			};
			ctx.count(&format!("foreign-spki:accepted:{}", name));
			let iss = &w.issuers[(pass as usize + n) % w.issuers.len()];
			let mut params = CertificateParams::default();
			params.distinguished_name.push(rcgen::DnType::CommonName, format!("foreign key {}", name));
			match crate::guard(|| params.signed_by(&spki, &iss.cert, &iss.key.kp).map_err(|e| e.to_string())) {
				Err(p) => ctx.violation("c02:foreign-spki-panic", &id, &text, &p),
				Ok(Err(_)) => ctx.count("foreign-spki:issuance-refused"),
				Ok(Ok(cert)) => match x509::parse_certificate(cert.der()) {
					Err(e) => ctx.violation("c02:foreign-spki-undecodable", &id, &text, &e),
					Ok(v) => {
						ctx.count("foreign-spki:issued");
						if v.spki.raw != *der {
							ctx.violation("c02:foreign-spki-relabelled", &id, &text, &format!("the certificate carries {} for the key that was handed in", hex(&v.spki.raw)));
						}
					},
				},
			}
		}
	}
}

/// Directed (C05): names edited before use, holding an attribute type under two spellings (the named variant and a custom
/// type with the same OID). Whatever such a history leaves in the name, the certificate must agree with itself: the
/// subjectAltName is critical exactly when the ENCODED subject is empty, and a name that still holds a value is not
/// written empty.
pub fn name_alias_directed(ctx: &Ctx, w: &Workload<'_>) {
	use rcgen::{DnType, SanType};
	let key = match w.pool.iter().find(|k| !k.is_remote()) {
		Some(k) => k,
		None => return,
	};
	for i in 0..(6 * 6 * 2) as u64 {
		let id = CaseId::new("name-alias", ctx.seed, i);
		if let Some(r) = &ctx.replay {
			if r.index != i {
				continue;
			}
		}
		let ty = STD_TYPES[(i % 6) as usize].clone();
		let (named, custom) = (ty.to_rcgen(), DnType::CustomDnType(ty.oid()));
		let text_value = if ty == DnTy::Country { "DE" } else { "value" };
		let history = i / 6 % 6;
		let with_san = i / 36 == 0;
		let mut p = CertificateParams::default();
		let dn = &mut p.distinguished_name;
		*dn = rcgen::DistinguishedName::new();
		// what a correct insertion-ordered map holds afterwards: (is the custom spelling, value)
		let mut model: Vec<(bool, &str)> = Vec::new();
		match history {
			0 => {
				dn.push(named.clone(), text_value);
				dn.push(custom.clone(), "other");
				dn.remove(named.clone());
				model.push((true, "other"));
			},
			1 => {
				dn.push(named.clone(), text_value);
				dn.push(custom.clone(), "other");
				dn.remove(custom.clone());
				model.push((false, text_value));
			},
			2 => {
				dn.push(custom.clone(), "other");
				dn.push(named.clone(), text_value);
				dn.remove(custom.clone());
				model.push((false, text_value));
			},
			3 => {
				dn.push(custom.clone(), "other");
				dn.push(named.clone(), text_value);
				dn.remove(named.clone());
				model.push((true, "other"));
			},
			4 => {
				dn.push(named.clone(), text_value);
				dn.remove(custom.clone());
				model.push((false, text_value));
			},
			_ => {
				dn.push(named.clone(), text_value);
				dn.push(custom.clone(), "other");
				dn.remove(named.clone());
				dn.remove(custom.clone());
			},
		}
		if with_san {
			p.subject_alt_names = vec![SanType::DnsName("alias.example.com".try_into().unwrap())];
		}
		let text = format!("attribute type {:?} as named variant and as custom OID, history {}, with SAN: {}", ty, history, with_san);
		ctx.count("eval:name-alias");
		match crate::guard(|| p.self_signed(&key.kp).map_err(|e| e.to_string())) {
			Err(pn) => ctx.violation("c05:cert-panic", &id, &text, &pn),
			Ok(Err(_)) => ctx.count("name-alias:refused"),
			Ok(Ok(cert)) => match x509::parse_certificate(cert.der()) {
				Err(e) => ctx.violation("c05:undecodable", &id, &text, &e),
				Ok(v) => {
					ctx.count("name-alias:issued");
					let encoded_empty = v.subject.rdns.is_empty();
					if let Some(san) = find(v.exts.as_deref().unwrap_or(&[]), x509::OID_SAN).first() {
						if san.critical != encoded_empty {
							ctx.violation("c05:san-criticality", &id, &text, &format!("subjectAltName critical={} but the encoded subject is empty={}", san.critical, encoded_empty));
						}
					} else if encoded_empty && with_san {
						ctx.violation("c05:san-missing", &id, &text, "empty subject and no subjectAltName");
					}
					if v.subject.flat().len() != model.len() {
						ctx.violation("c05:subject-attributes", &id, &text, &format!("the name holds {} value(s), the encoded subject {}", model.len(), v.subject.flat().len()));
					}
				},
			},
		}
	}
}

pub const WORKLOADS: [&str; 8] = ["lattice", "ku", "prefix", "pathlen", "kid", "keys", "huge", "random"];

/// Run the certificate workload for one property.
pub fn run(ctx: &Ctx, prop: Prop, w: &Workload<'_>, n_random: u64) {
	if prop == Prop::C05 && ctx.replay.as_ref().map_or(true, |r| r.workload == "name-alias") {
		name_alias_directed(ctx, w);
	}
	if prop == Prop::C02 && ctx.replay.as_ref().map_or(true, |r| r.workload == "foreign-spki") {
		foreign_subject_keys(ctx, w);
	}
	for wl in WORKLOADS {
		if let Some(r) = &ctx.replay {
			if r.workload != wl {
				continue;
			}
		}
		let (seed, n) = match wl {
			"random" => (ctx.seed, n_random),
			"lattice" | "keys" => (ctx.seed, 100_000),
			_ => (ctx.seed, 100_000),
		};
		// enumerated workloads end when gen_case returns None
		let count = (0..n).take_while(|i| wl == "random" || gen_case(w, wl, seed, *i).is_some()).count() as u64;
		// remote signers record their calls: keep those cases sequential per key by running remote-signed cases on one thread
		let serial: std::sync::Mutex<()> = std::sync::Mutex::new(());
		par_for(count, ctx.threads, |i| {
			if let Some(r) = &ctx.replay {
				if r.index != i {
					return;
				}
			}
			let case = match gen_case(w, wl, seed, i) {
				Some(c) => c,
				None => return,
			};
			let _g = if case.signer().is_remote() { Some(serial.lock().unwrap()) } else { None };
			let log_before = case.signer().remote_log.as_ref().map_or(0, |l| l.lock().unwrap().msgs.len());
			let out = build(&case);
			ctx.count(&format!("eval:{}:{}", "cert", wl));
			if wl == "random" || wl == "keys" {
				if case.spec.nontrivial() {
					ctx.distinct(case.spec.hash() ^ crate::util::fnv64(case.subject_key.label.as_bytes()));
				}
			} else {
				ctx.count(&format!("dist:{}", wl));
			}
			ctx.sample(|| format!("{}#{}: {}", wl, i, crate::util::clip(&case.text(), 700)));
			match out {
				Outcome::Panic(p) => ctx.violation(&format!("{}:cert-panic", prop_tag(prop)), &case.id, &case.text(), &p),
				Outcome::Err(e) => ctx.violation(
					&format!("{}:cert-refused", prop_tag(prop)),
					&case.id,
					&case.text(),
					&format!("well-formed parameters were refused: {}", e),
				),
				Outcome::Ok(cert, input) => match prop {
					Prop::C01 => check_c01(ctx, &case, &cert, log_before),
					Prop::C02 => check_c02(ctx, &case, &cert, &input),
					Prop::C04 => check_c04(ctx, &case, &cert),
					Prop::C05 => check_c05(ctx, &case, &cert),
					Prop::C07 | Prop::C08 => {},
				},
			}
		});
	}
}

pub fn prop_tag(p: Prop) -> &'static str {
	match p {
		Prop::C01 => "c01",
		Prop::C02 => "c02",
		Prop::C04 => "c04",
		Prop::C05 => "c05",
		Prop::C07 => "c07",
		Prop::C08 => "c08",
	}
}
