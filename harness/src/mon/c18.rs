//! C18 – the CLI writes a usable CA + end-entity pair for any valid options, and writes nothing
//! (and does not panic) for invalid ones. The real binary is run, each time in a fresh directory.
#![cfg(all(feature = "crypto", feature = "ossl"))]

use std::net::IpAddr;
use std::path::{Path, PathBuf};
use std::process::Command;

use crate::ctx::{par_for, CaseId, Ctx};
use crate::ossl::{self, VerifyOpts};
use crate::pemx;
use crate::spec::{gn_key, is_printable, name_key};
use crate::util::{fnv64, hex, Rng};
use crate::x509;

#[derive(Clone, Debug)]
struct Opts {
	alg: Option<&'static str>,
	sans: Vec<String>,
	cn: Option<String>,
	country: Option<String>,
	org: Option<String>,
	client: bool,
	server: bool,
	ca_name: Option<String>,
	cert_name: Option<String>,
	/// 0 existing dir, 1 to be created, 2 nested to be created
	out_kind: u8,
}

impl Opts {
	fn args(&self, out: &Path) -> Vec<String> {
		let mut a: Vec<String> = vec!["--output".into(), out.to_string_lossy().to_string()];
		if let Some(f) = self.alg {
			a.push(f.into());
		}
		for s in &self.sans {
			a.push("--san".into());
			a.push(s.clone());
		}
		if let Some(v) = &self.cn {
			a.push("--common-name".into());
			a.push(v.clone());
		}
		if let Some(v) = &self.country {
			a.push("--country-name".into());
			a.push(v.clone());
		}
		if let Some(v) = &self.org {
			a.push("--organization-name".into());
			a.push(v.clone());
		}
		if self.client {
			a.push("--client-auth".into());
		}
		if self.server {
			a.push("--server-auth".into());
		}
		if let Some(v) = &self.ca_name {
			a.push("--ca-file-name".into());
			a.push(v.clone());
		}
		if let Some(v) = &self.cert_name {
			a.push("--cert-file-name".into());
			a.push(v.clone());
		}
		a
	}
	fn ca_base(&self) -> String {
		self.ca_name.clone().unwrap_or_else(|| "root-ca".into())
	}
	fn cert_base(&self) -> String {
		self.cert_name.clone().unwrap_or_else(|| "cert".into())
	}
	/// reasons why the option set is invalid (empty = valid)
	fn invalid_reasons(&self) -> Vec<String> {
		let mut r = Vec::new();
		if let Some(c) = &self.country {
			if !c.chars().all(|ch| (ch as u32) < 128 && is_printable(ch as u8)) {
				r.push("country is not a PrintableString".into());
			}
		}
		for s in &self.sans {
			if s.parse::<IpAddr>().is_err() && !s.is_ascii() {
				r.push(format!("SAN {:?} is not ASCII", s));
			}
		}
		match self.alg {
			Some("--rsa") if crate::BACKEND == "ring" => r.push("RSA key generation is unavailable under ring".into()),
			Some("--ecdsa-p521") if crate::BACKEND == "ring" => r.push("P-521 is not offered by the ring build".into()),
			_ => {},
		}
		r
	}
}

fn gen_base_name(rng: &mut Rng) -> String {
	let alphabet: Vec<char> = "abcXYZ019._ -+,=@é日".chars().collect();
	loop {
		let n = 1 + rng.below(10) as usize;
		let s: String = (0..n).map(|_| *rng.pick(&alphabet)).collect();
		if s.starts_with('-') || s == "." || s == ".." || s.trim().is_empty() {
			continue;
		}
		return s;
	}
}

fn gen_san(rng: &mut Rng) -> String {
	match rng.below(14) {
		// the longest textual forms of an IPv6 address (full groups with an embedded dotted quad: up to 45 characters)
		12 => format!(
			"{:04x}:{:04x}:{:04x}:{:04x}:{:04x}:{:04x}:{}.{}.{}.{}",
			rng.below(65536), rng.below(65536), rng.below(3), 0, 0, if rng.chance(1, 2) { 0xffff } else { rng.below(65536) },
			100 + rng.below(156), 100 + rng.below(156), 100 + rng.below(156), 100 + rng.below(156)
		),
		13 => {
			// any address in one of its other spellings: upper case, full groups, compressed
			let a = std::net::Ipv6Addr::from((rng.next_u64() as u128) << 64 | rng.next_u64() as u128 & if rng.chance(1, 2) { !0 } else { 0xffff_0000_0000_ffff });
			let g = a.segments();
			match rng.below(3) {
				0 => a.to_string().to_uppercase(),
				1 => g.iter().map(|x| format!("{:04X}", x)).collect::<Vec<_>>().join(":"),
				_ => a.to_string(),
			}
		},
		0 => format!("{}.{}.{}.{}", rng.below(256), rng.below(256), rng.below(256), rng.below(256)),
		1 => "::1".to_string(),
		2 => "2001:0db8:85a3:0000:0000:8a2e:0370:7334".to_string(),
		3 => format!("2001:db8::{:x}", rng.below(65536)),
		4 => format!("::ffff:{}.{}.{}.{}", rng.below(256), rng.below(256), rng.below(256), rng.below(256)),
		5 => rng.pick(&["1.2.3", "256.1.1.1", "1.2.3.4.5", "::g", "1.2.3.4/24", "01.2.3.4", "[::1]", "0x7f.1"]).to_string(),
		6 => "*.example.com".to_string(),
		7 => "localhost".to_string(),
		_ => crate::spec::gen_host(rng),
	}
}

fn gen_opts(rng: &mut Rng, force_invalid: Option<u8>) -> Opts {
	let algs: Vec<Option<&'static str>> = if crate::BACKEND == "aws" {
		vec![None, Some("--ecdsa-p256"), Some("--ecdsa-p384"), Some("--ed25519"), Some("--ecdsa-p521"), Some("--rsa")]
	} else {
		vec![None, Some("--ecdsa-p256"), Some("--ecdsa-p384"), Some("--ed25519")]
	};
	let text = |rng: &mut Rng| -> String {
		match rng.below(6) {
			0 => String::new(),
			1 => "Ünïcödé 日本".into(),
			2 => "x".repeat(300),
			3 => "O'Neil (Test) Ltd.".into(),
			_ => crate::spec::gen_host(rng),
		}
	};
	let mut o = Opts {
		alg: *rng.pick(&algs),
		sans: (0..match rng.below(6) {
			0 => 0,
			1 => 12,
			_ => rng.below(4),
		})
			.map(|_| gen_san(rng))
			.collect(),
		cn: if rng.chance(2, 3) { Some(text(rng)) } else { None },
		country: if rng.chance(1, 2) {
			Some(match rng.below(5) {
				0 => String::new(),
				1 => "US".into(),
				2 => "Free State (x)".into(),
				3 => "D".into(),
				_ => "BR".into(),
			})
		} else {
			None
		},
		org: if rng.chance(1, 2) { Some(text(rng)) } else { None },
		client: rng.chance(1, 2),
		server: rng.chance(1, 2),
		ca_name: if rng.chance(1, 2) { Some(gen_base_name(rng)) } else { None },
		cert_name: if rng.chance(1, 2) { Some(gen_base_name(rng)) } else { None },
		out_kind: rng.below(3) as u8,
	};
	// the four target paths must be pairwise distinct for a VALID option set
	loop {
		let (a, b) = (o.ca_base(), o.cert_base());
		if a == b || a == format!("{}.key", b) || b == format!("{}.key", a) {
			o.cert_name = Some(gen_base_name(rng));
		} else {
			break;
		}
	}
	match force_invalid {
		Some(0) => o.country = Some(rng.pick(&["Brésil", "U*", "a@b", "x_y", "日本", "A&B"]).to_string()),
		Some(1) => o.sans.push(rng.pick(&["münchen.example", "日本.example", "exämple.com", "a\u{80}b"]).to_string()),
		Some(2) => {
			o.alg = Some(if crate::BACKEND == "ring" { *rng.pick(&["--rsa", "--ecdsa-p521"]) } else { "--rsa" });
			if crate::BACKEND == "aws" {
				// every algorithm is supported under aws-lc-rs: use another invalid class
				o.country = Some("ü".into());
			}
		},
		_ => {},
	}
	o
}

fn list_files(root: &Path) -> Vec<PathBuf> {
	let mut out = Vec::new();
	let mut stack = vec![root.to_path_buf()];
	while let Some(d) = stack.pop() {
		if let Ok(rd) = std::fs::read_dir(&d) {
			for e in rd.flatten() {
				let p = e.path();
				if p.is_dir() {
					stack.push(p);
				} else {
					out.push(p);
				}
			}
		}
	}
	out.sort();
	out
}

struct RunResult {
	code: Option<i32>,
	stderr: String,
	files: Vec<PathBuf>,
	out_dir: PathBuf,
	attempted_creates: Option<Vec<String>>,
}

fn run_cli(cli: &Path, root: &Path, o: &Opts, strace: bool) -> Result<RunResult, String> {
	run_cli_in(cli, root, o, strace, true)
}

/// `fresh = false`: keep what an earlier run left in `root` (same names are then overwritten)
fn run_cli_in(cli: &Path, root: &Path, o: &Opts, strace: bool, fresh: bool) -> Result<RunResult, String> {
	if fresh {
		let _ = std::fs::remove_dir_all(root);
	}
	std::fs::create_dir_all(root).map_err(|e| e.to_string())?;
	let out_dir = match o.out_kind {
		0 => {
			let d = root.join("existing");
			std::fs::create_dir_all(&d).map_err(|e| e.to_string())?;
			d
		},
		1 => root.join("new"),
		_ => root.join("a").join("b c").join("d"),
	};
	let args = o.args(&out_dir);
	let trace_file = root.join("strace.out");
	let mut cmd = if strace {
		let mut c = Command::new("strace");
		c.args(["-f", "-e", "trace=openat,creat,mkdir,mkdirat,rename,renameat,unlink,unlinkat", "-o"]).arg(&trace_file).arg(cli);
		c
	} else {
		Command::new(cli)
	};
	cmd.args(&args).current_dir(root).env("RUST_BACKTRACE", "0");
	let outp = cmd.output().map_err(|e| format!("cannot run the CLI: {}", e))?;
	let mut attempted = None;
	if strace {
		let t = std::fs::read_to_string(&trace_file).unwrap_or_default();
		let mut v = Vec::new();
		for l in t.lines() {
			if (l.contains("O_CREAT") || l.contains("creat(") || l.contains("mkdir")) && l.contains(&root.to_string_lossy().to_string()) {
				v.push(l.to_string());
			}
		}
		attempted = Some(v);
		let _ = std::fs::remove_file(&trace_file);
	}
	Ok(RunResult {
		code: outp.status.code(),
		stderr: String::from_utf8_lossy(&outp.stderr).to_string(),
		files: list_files(root),
		out_dir,
		attempted_creates: attempted,
	})
}

fn read_pem(path: &Path, label: &str) -> Result<Vec<u8>, String> {
	let t = std::fs::read_to_string(path).map_err(|e| format!("{}: {}", path.display(), e))?;
	let p = pemx::decode_strict(&t, "\n").map_err(|e| format!("{}: not strict PEM: {}", path.display(), e))?;
	if p.label != label {
		return Err(format!("{}: label {:?}, expected {:?}", path.display(), p.label, label));
	}
	Ok(p.data)
}

fn check_valid(ctx: &Ctx, case: &CaseId, text: &str, o: &Opts, r: &RunResult) {
	let mut bad = |what: &str, d: String| ctx.violation(&format!("c18:{}", what), case, text, &d);
	if r.code != Some(0) {
		return bad("valid-options-failed", format!("exit {:?}; stderr: {}", r.code, crate::util::clip(&r.stderr, 400)));
	}
	let want: Vec<PathBuf> = {
		let mut v = vec![
			r.out_dir.join(format!("{}.pem", o.ca_base())),
			r.out_dir.join(format!("{}.key.pem", o.ca_base())),
			r.out_dir.join(format!("{}.pem", o.cert_base())),
			r.out_dir.join(format!("{}.key.pem", o.cert_base())),
		];
		v.sort();
		v
	};
	if r.files != want {
		return bad("files", format!("files present {:?}, expected exactly {:?}", r.files, want));
	}
	let load = |base: &str| -> Result<(Vec<u8>, Vec<u8>), String> {
		Ok((
			read_pem(&r.out_dir.join(format!("{}.pem", base)), "CERTIFICATE")?,
			read_pem(&r.out_dir.join(format!("{}.key.pem", base)), "PRIVATE KEY")?,
		))
	};
	let (ca, ca_key) = match load(&o.ca_base()) {
		Ok(x) => x,
		Err(e) => return bad("pem", e),
	};
	let (ee, ee_key) = match load(&o.cert_base()) {
		Ok(x) => x,
		Err(e) => return bad("pem", e),
	};
	let cav = match x509::parse_certificate(&ca) {
		Ok(v) => v,
		Err(e) => return bad("ca-undecodable", e),
	};
	let eev = match x509::parse_certificate(&ee) {
		Ok(v) => v,
		Err(e) => return bad("ee-undecodable", e),
	};
	// each key matches its certificate
	for (who, key, view) in [("ca", &ca_key, &cav), ("end-entity", &ee_key, &eev)] {
		match ossl::spki_of_private(key) {
			Ok(s) if s == view.spki.raw => {},
			Ok(s) => bad("key-cert-mismatch", format!("{}: the private key's public part {} is not the certificate's key {}", who, hex(&s), hex(&view.spki.raw))),
			Err(e) => bad("key-unreadable", format!("{}: {}", who, e)),
		}
	}
	if ca_key == ee_key {
		bad("same-key", "CA and end-entity share one private key".into());
	}
	// expected key algorithm
	let want_alg: &[u64] = match o.alg {
		Some("--rsa") => &[1, 2, 840, 113549, 1, 1, 1],
		Some("--ed25519") => &[1, 3, 101, 112],
		_ => &[1, 2, 840, 10045, 2, 1],
	};
	if eev.spki.alg_oid != want_alg || cav.spki.alg_oid != want_alg {
		bad("key-algorithm", format!("SPKI algorithm {:?}/{:?}, requested flag {:?}", cav.spki.alg_oid, eev.spki.alg_oid, o.alg));
	}
	let curve: Option<&[u8]> = match o.alg {
		None | Some("--ecdsa-p256") => Some(&[0x06, 0x08, 0x2a, 0x86, 0x48, 0xce, 0x3d, 0x03, 0x01, 0x07]),
		Some("--ecdsa-p384") => Some(&[0x06, 0x05, 0x2b, 0x81, 0x04, 0x00, 0x22]),
		Some("--ecdsa-p521") => Some(&[0x06, 0x05, 0x2b, 0x81, 0x04, 0x00, 0x23]),
		_ => None,
	};
	if let Some(c) = curve {
		if eev.spki.alg_params.as_deref() != Some(c) {
			bad("key-curve", format!("curve parameters {:?}", eev.spki.alg_params.as_ref().map(|p| hex(p))));
		}
	}
	// the CA is a CA with keyCertSign and cRLSign
	let ext = |v: &x509::CertView, oid: &[u64]| v.exts.iter().flatten().find(|e| e.oid == oid).map(|e| e.value.clone());
	match ext(&cav, x509::OID_BC).map(|v| x509::parse_bc(&v)) {
		Some(Ok((true, _))) => {},
		other => bad("ca-not-ca", format!("basic constraints of the CA: {:?}", other)),
	}
	match ext(&cav, x509::OID_KU).map(|v| x509::parse_ku(&v)) {
		Some(Ok(m)) if m & (1 << 5) != 0 && m & (1 << 6) != 0 => {},
		other => bad("ca-key-usage", format!("CA key usage {:?} lacks keyCertSign/cRLSign", other)),
	}
	// CA subject: country (PrintableString) then organisation
	let country = o.country.clone().unwrap_or_else(|| "BR".into());
	let org = o.org.clone().unwrap_or_else(|| "Crab widgits SE".into());
	let got: Vec<(Vec<u64>, u32, String)> = cav.subject.flat().iter().map(|a| (a.oid.clone(), a.tag, a.text().unwrap_or_default())).collect();
	let want_subject = vec![(vec![2, 5, 4, 6], crate::derx::PRINTABLE, country), (vec![2, 5, 4, 10], crate::derx::UTF8, org)];
	if got != want_subject {
		bad("ca-subject", format!("CA subject {:?}, expected {:?}", got, want_subject));
	}
	// end-entity: CN, names, purposes
	let cn = o.cn.clone().unwrap_or_else(|| "Tls End-Entity Certificate".into());
	let got: Vec<(Vec<u64>, String)> = eev.subject.flat().iter().map(|a| (a.oid.clone(), a.text().unwrap_or_default())).collect();
	if got != vec![(vec![2, 5, 4, 3], cn.clone())] {
		bad("ee-common-name", format!("end-entity subject {:?}, expected CN={:?}", got, cn));
	}
	let mut want_names: Vec<String> = o
		.sans
		.iter()
		.map(|s| match s.parse::<IpAddr>() {
			Ok(IpAddr::V4(a)) => format!("ip:{}", hex(&a.octets())),
			Ok(IpAddr::V6(a)) => format!("ip:{}", hex(&a.octets())),
			Err(_) => format!("dns:{}", hex(s.as_bytes())),
		})
		.collect();
	let mut got_names: Vec<String> = match ext(&eev, x509::OID_SAN) {
		None => vec![],
		Some(v) => match x509::parse_san(&v) {
			Ok(n) => n.iter().map(gn_key).collect(),
			Err(e) => {
				bad("ee-san-undecodable", e);
				vec![]
			},
		},
	};
	want_names.sort();
	got_names.sort();
	if want_names != got_names {
		bad("ee-names", format!("end-entity names {:?}, given {:?}", got_names, want_names));
	}
	let mut want_eku: Vec<Vec<u64>> = Vec::new();
	if o.client {
		want_eku.push(vec![1, 3, 6, 1, 5, 5, 7, 3, 2]);
	}
	if o.server {
		want_eku.push(vec![1, 3, 6, 1, 5, 5, 7, 3, 1]);
	}
	let mut got_eku = ext(&eev, x509::OID_EKU).map(|v| x509::parse_eku(&v).unwrap_or_default()).unwrap_or_default();
	want_eku.sort();
	got_eku.sort();
	if want_eku != got_eku {
		bad("ee-purposes", format!("extended key usages {:?}, requested {:?}", got_eku, want_eku));
	}
	if ext(&eev, x509::OID_BC).map(|v| x509::parse_bc(&v).map(|b| b.0)) == Some(Ok(true)) {
		bad("ee-is-ca", "the end-entity certificate is a CA".into());
	}
	// chains to the CA under independent validators
	if name_key(&eev.issuer) != name_key(&cav.subject) {
		bad("ee-issuer", "end-entity issuer differs from the CA subject".into());
	}
	let at = eev.not_before.unix.max(cav.not_before.unix) + 1000;
	match ossl::openssl_verify(&ee, &[], &[ca.clone()], &VerifyOpts::at(at)) {
		Ok(Ok(())) => ctx.count("eval:openssl_chain_checks"),
		Ok(Err(why)) => bad("chain-openssl", why),
		Err(e) => ctx.note(format!("openssl harness error: {}", e)),
	}
	let purposes: Vec<u8> = match (o.server, o.client) {
		(false, false) => vec![0, 1],
		(s, c) => [(s, 0u8), (c, 1u8)].iter().filter(|x| x.0).map(|x| x.1).collect(),
	};
	if o.alg != Some("--ecdsa-p521") && at >= 0 {
		for p in purposes {
			match ossl::webpki_verify(&ee, &[], &[ca.clone()], at, p) {
				Ok(Ok(())) => ctx.count("eval:webpki_chain_checks"),
				Ok(Err(why)) => bad("chain-webpki", why),
				Err(e) => ctx.note(format!("webpki harness error: {}", e)),
			}
		}
	}
}

fn check_invalid(ctx: &Ctx, case: &CaseId, text: &str, r: &RunResult, reasons: &[String]) {
	let mut bad = |what: &str, d: String| ctx.violation(&format!("c18:{}", what), case, text, &d);
	if r.code == Some(0) {
		bad("invalid-options-accepted", format!("exit 0 although {:?}", reasons));
	}
	if r.code == Some(101) || r.code.is_none() || r.stderr.contains("panicked at") {
		bad("panic", format!("exit {:?}; stderr: {}", r.code, crate::util::clip(&r.stderr, 500)));
	}
	if !r.files.is_empty() {
		bad("invalid-options-wrote-files", format!("files left behind: {:?} ({:?})", r.files, reasons));
	}
	if let Some(a) = &r.attempted_creates {
		let files: Vec<&String> = a.iter().filter(|l| !l.contains("mkdir") && !l.contains("O_DIRECTORY")).collect();
		if !files.is_empty() {
			bad("invalid-options-attempted-writes", format!("file creations attempted: {:?}", files));
		}
	}
}

pub fn run(ctx: &Ctx, cli: &Path) {
	if !cli.exists() {
		return ctx.inconclusive(&format!("CLI binary {} not built", cli.display()));
	}
	let tmp_root = ctx.out_dir.join("tmp");
	let n = ctx.scale(300, 6_000);
	let n_strace = ctx.scale(0, 300);
	let have_strace = Command::new("strace").arg("-V").output().map(|o| o.status.success()).unwrap_or(false);
	par_for(n + 40, ctx.threads, |i| {
		if let Some(r) = &ctx.replay {
			if r.index != i {
				return;
			}
		}
		let case = CaseId::new("cli", ctx.seed, i);
		let mut rng = case.rng();
		// every third case is an invalid option set of one of the three classes
		let (o, directed) = if i >= n {
			// known finding probe and its mirror image, plus near misses that are valid
			let k = i - n;
			let mut o = gen_opts(&mut rng, None);
			o.sans.retain(|s| s.is_ascii());
			match k % 4 {
				0 => {
					o.ca_name = Some("x".into());
					o.cert_name = Some("x.key".into());
				},
				1 => {
					o.ca_name = Some("y.key".into());
					o.cert_name = Some("y".into());
				},
				2 => {
					o.ca_name = Some("z".into());
					o.cert_name = Some("z.keys".into());
				},
				_ => {
					o.ca_name = Some("w.pem".into());
					o.cert_name = Some("w".into());
				},
			}
			(o, Some(k % 4))
		} else {
			(gen_opts(&mut rng, if i % 3 == 2 { Some((i / 3 % 3) as u8) } else { None }), None)
		};
		let reasons = o.invalid_reasons();
		let text = format!("args={:?} invalid_because={:?}", o.args(Path::new("<out>")), reasons);
		let root = tmp_root.join(format!("c{}", i));
		let strace = have_strace && i < n_strace;
		// every fifth valid case: first a run with the LARGEST keys into the same directory and names, then the real one
		// (a writer that does not truncate leaves the tail of the longer file behind)
		let rerun = reasons.is_empty() && directed.is_none() && i % 5 == 0;
		if rerun {
			let mut first = o.clone();
			first.alg = Some(if crate::BACKEND == "aws" { "--rsa" } else { "--ecdsa-p384" });
			first.sans = (0..12).map(|k| format!("a-rather-long-host-name-number-{}.example.com", k)).collect();
			let _ = run_cli_in(cli, &root, &first, false, true);
			ctx.count("eval:second_runs_into_same_directory");
		}
		let r = match if rerun { run_cli_in(cli, &root, &o, strace, false) } else { run_cli(cli, &root, &o, strace) } {
			Ok(r) => r,
			Err(e) => {
				ctx.note(format!("harness: {}", e));
				return;
			},
		};
		ctx.count(if reasons.is_empty() { "eval:valid_invocations" } else { "eval:invalid_invocations" });
		ctx.count(&format!("alg:{}", o.alg.unwrap_or("default")));
		if strace {
			ctx.count("eval:straced_invocations");
		}
		ctx.distinct(fnv64(text.as_bytes()));
		ctx.sample(|| crate::util::clip(&text, 500));
		if matches!(directed, Some(0) | Some(1)) {
			// the two colliding layouts: `<x>.key.pem` is written twice
			let collided = r.code == Some(0) && r.files.len() == 3;
			if collided {
				ctx.violation("c18:basename-collision", &case, &text, &format!("exit 0 with only {} files: {:?}", r.files.len(), r.files));
			} else if reasons.is_empty() {
				check_valid(ctx, &case, &text, &o, &r);
			}
		} else if reasons.is_empty() {
			check_valid(ctx, &case, &text, &o, &r);
		} else {
			check_invalid(ctx, &case, &text, &r, &reasons);
		}
		let _ = std::fs::remove_dir_all(&root);
	});
	let _ = std::fs::remove_dir_all(&tmp_root);
}
