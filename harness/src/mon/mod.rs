//! One monitor module per property.

pub mod c09;
pub mod c13;
pub mod c20;

use crate::ctx::Ctx;

/// Runs the monitor for `ctx.prop`; returns (rule describing cases / non-triviality, exhaustiveness note).
pub fn dispatch(ctx: &Ctx, _extra: &[String]) -> (String, String) {
	match ctx.prop.as_str() {
		"C09" => {
			c09::run(ctx);
			(
				"case = one (instant, offset, nanosecond) value pushed through notBefore/notAfter (and thisUpdate/nextUpdate/revocationDate on a subset); boundary sweeps are enumerated (each (instant, offset) pair is distinct by construction), random instants are counted by hash of the value; every case is non-trivial (non-default time)".into(),
				"boundary windows enumerated at the stated step for all listed offsets".into(),
			)
		},
		"C13" => {
			c13::run(ctx);
			(
				"case = (string type, text) or (byte-level constructor, bytes); the scalar sweep and the byte-level sets are enumerated (distinct by construction), random strings and serialised chunks are counted by hash".into(),
				"all 1,112,064 scalar values x 5 types; every 16-bit unit; every 32-bit value 0..=0x110400".into(),
			)
		},
		"C20" => {
			c20::run(ctx);
			(
				"case = one edit history (sequence of push/remove); exhaustive histories are enumerated (distinct by construction) and additionally the distinct reached states (hash of the model enumeration) are counted; a history is non-trivial when it has at least one operation".into(),
				"all histories up to the stated length over 12 operations".into(),
			)
		},
		other => {
			ctx.inconclusive(&format!("no monitor for {} in this build", other));
			(String::new(), String::new())
		},
	}
}
