//! One monitor module per property.

pub mod c06;
pub mod c09;
pub mod c10;
pub mod certs;
pub mod chains;
pub mod crls;
pub mod csrs;
pub mod imports;
pub mod keymon;
pub mod miri_import;
pub mod table;
pub mod c13;
pub mod c18;
pub mod c20;

use crate::ctx::Ctx;

#[cfg(all(feature = "crypto", feature = "ossl"))]
pub fn certs_ku_lenient(v: &[u8]) -> Option<u16> {
	certs::ku_lenient(v)
}

/// Runs the monitor for `ctx.prop`; returns (rule describing cases / non-triviality, exhaustiveness note).
pub fn dispatch(ctx: &Ctx, extra: &[String]) -> (String, String) {
	let arg = |name: &str| -> Option<String> { extra.iter().find_map(|a| a.strip_prefix(&format!("{}=", name)).map(|s| s.to_string())) };
	match ctx.prop.as_str() {
		"C09" => {
			c09::run(ctx);
			(
				"case = one (instant, offset, nanosecond) value pushed through notBefore/notAfter (and thisUpdate/nextUpdate/revocationDate on a subset); boundary sweeps are enumerated (each (instant, offset) pair is distinct by construction), random instants are counted by hash of the value; every case is non-trivial (non-default time)".into(),
				"boundary windows enumerated at the stated step for all listed offsets".into(),
			)
		},
		"C13" => {
			c13::run(ctx);
			(
				"case = (string type, text) or (byte-level constructor, bytes); the scalar sweep and the byte-level sets are enumerated (distinct by construction), random strings and serialised chunks are counted by hash".into(),
				"all 1,112,064 scalar values x 5 types; every 16-bit unit; every 32-bit value 0..=0x110400".into(),
			)
		},
		"C20" => {
			c20::run(ctx);
			(
				"case = one edit history (sequence of push/remove); exhaustive histories are enumerated (distinct by construction) and additionally the distinct reached states (hash of the model enumeration) are counted; a history is non-trivial when it has at least one operation".into(),
				"all histories up to the stated length over 12 operations".into(),
			)
		},
		#[cfg(all(feature = "crypto", feature = "ossl"))]
		"C10" => {
			let shard = arg("shard").and_then(|s| {
				let mut it = s.split('/');
				Some((it.next()?.parse().ok()?, it.next()?.parse().ok()?))
			});
			c10::run(ctx, shard.unwrap_or((0, 1)));
			(
				"case = one input offered to the parsing entry points (corpus member, structure-aware or byte-level mutant, PEM text mutant, random bytes, random text) or one hostile parameter set pushed through every generation entry point and accessor; distinct by hash of the input; an accepted input is also pushed through generation".into(),
				String::new(),
			)
		},
		#[cfg(all(feature = "crypto", feature = "ossl"))]
		"C18" => {
			match arg("cli") {
				Some(p) => c18::run(ctx, std::path::Path::new(&p)),
				None => ctx.inconclusive("no cli= argument"),
			}
			(
				"case = one invocation of the real rustls-cert-gen binary in a fresh directory with a generated option set (two thirds valid, one third invalid in one of the three classes, plus directed base-name layouts); distinct by hash of the argument vector".into(),
				String::new(),
			)
		},
		"MIRI-IMPORT" => {
			miri_import::run(ctx);
			("case = one generated certificate (remote signer) imported, compared, re-issued; plus structure-aware mutants of those offered to the import parser".into(), String::new())
		},
		"C15" | "C16" => {
			table_dispatch(ctx, &arg);
			(
				"case = one entry of a table of certificate / CSR / CRL parameter sets with fixed keys, executed repeatedly (back to back, after unrelated calls, concurrently on T threads in seeded orders for M rounds, in P processes, in several build configurations); events are (case, phase, thread, round, hash of TBS, hash of output)".into(),
				String::new(),
			)
		},
		#[cfg(all(feature = "crypto", feature = "ossl"))]
		"C06" => {
			use crate::keys::{build_pool, PoolSize};
			let pool = build_pool(PoolSize::Small);
			c06::run(ctx, &pool);
			(
				"case = one byte string offered as a CSR: base requests made by rcgen (every key family) and by OpenSSL (key/digest pairings rcgen never produces, unsupported extensions, repeated subject attributes), every single-bit flip of selected requests (enumerated), and random structure-aware / byte-level mutants (distinct by hash of the bytes); every ACCEPTED input is judged".into(),
				"all single-bit flips of the selected base requests".into(),
			)
		},
		#[cfg(all(feature = "crypto", feature = "ossl"))]
		"C11" => {
			keymon::run_c11(ctx);
			(
				"case = (base key, loading route) and (base key, requested algorithm, explicit loader); base keys are fresh per run (back-end generated and OpenSSL generated, every family); enumerated pairs are counted per (family, route) / (key family, algorithm family, route) class and additionally every load is counted".into(),
				"all (key family x algorithm x explicit loader) pairs; all (key family x loading route x reload route) triples".into(),
			)
		},
		#[cfg(all(feature = "crypto", feature = "ossl"))]
		"C14" => {
			if ctx.replay.as_ref().map_or(true, |r| r.workload != "cli-files") {
				keymon::run_c14(ctx);
			}
			match arg("cli") {
				Some(p) => keymon::run_c14_cli(ctx, std::path::Path::new(&p)),
				None => ctx.count("cli-files:no-cli-argument"),
			}
			(
				"case = one PEM text (kind, DER length); certificates/CSRs/CRLs swept over consecutive DER lengths (residues mod 3 and mod 48 are recorded, a sweep that misses a residue makes the run inconclusive); keys of every family and RSA size".into(),
				String::new(),
			)
		},
		#[cfg(all(feature = "crypto", feature = "ossl"))]
		"C19" => {
			keymon::run_c19(ctx);
			(
				"case = one key; every public output and diagnostic reachable with it (artefacts, Debug renderings, Display/Debug of every error from feeding key-bearing texts and DER to every loader/parser under every algorithm) is scanned for 12-byte windows of the private components in raw, hex, decimal-list and base64 form; positive controls prove the scanner sees the secret in the export functions".into(),
				String::new(),
			)
		},
		#[cfg(all(feature = "crypto", feature = "ossl"))]
		"C12" => {
			use crate::keys::{build_pool, PoolSize};
			let pool = build_pool(PoolSize::Small);
			chains::run(ctx, &pool);
			(
				"case = one chain root -> [intermediates] -> leaf with one constraint dimension varied around a valid base chain (directed cases, enumerated, each distinct) or several dimensions varied at random (by hash); judged by OpenSSL X509_verify_cert and webpki verify_for_usage".into(),
				"directed: CA flag variants x position, path length {none,0,1,2} x position x depth 0..3, 7 verification times x 3 windows, DNS constraints x 7 leaf names x permitted/excluded x 2 positions, IPv4 prefixes {0,1,8,23,24,25,31,32} and IPv6 {0,1,64,65,127,128} x boundary addresses, 8 EKU sets x 2 purposes, 10 CA key-usage sets x 2 positions".into(),
			)
		},
		#[cfg(all(feature = "crypto", feature = "ossl"))]
		"C03" | "C17" => {
			use crate::keys::{build_pool, PoolSize};
			let pool = build_pool(if ctx.quick() { PoolSize::Quick } else { PoolSize::Thorough });
			ctx.note(format!("key pool: {}", pool.iter().map(|k| k.label.clone()).collect::<Vec<_>>().join(",")));
			if ctx.prop == "C03" {
				imports::run_c03(ctx, &pool);
				(
					"case = (issuer parameters or OpenSSL-made CA, issuer key, leaf parameters, leaf key); three issuer origins: rcgen-generated, rcgen-generated then imported and re-created, OpenSSL-made then imported; distinct by hash of the expanded case".into(),
					String::new(),
				)
			} else {
				imports::run_c17(ctx, &pool);
				(
					"case = one ParamSpec (importable subset of the C02 space) generated, imported (DER and PEM), compared field-wise and re-issued; enumerated: 512 key-usage subsets, 256 path lengths, 2x256 prefixes x 4 constructors; random cases by hash; OpenSSL-made CAs by hash".into(),
					"512 key-usage subsets, 256 path lengths, 512 prefix cases".into(),
				)
			}
		},
		#[cfg(all(feature = "crypto", feature = "ossl"))]
		"C01" | "C02" | "C04" | "C05" | "C07" | "C08" => artefacts(ctx),
		other => {
			ctx.inconclusive(&format!("no monitor for {} in this build", other));
			(String::new(), String::new())
		},
	}
}

#[cfg(all(feature = "crypto", feature = "ossl"))]
fn artefacts(ctx: &Ctx) -> (String, String) {
	use crate::keys::{build_pool, PoolSize};
	use certs::Prop;
	// the slow instrumented layers (valgrind) use the small pool: RSA-4096 generation under memcheck takes minutes
	let slow_layer = std::env::var("VERIF_SCALE_DIV").is_ok();
	let pool = build_pool(if slow_layer { PoolSize::Small } else if ctx.quick() { PoolSize::Quick } else { PoolSize::Thorough });
	ctx.note(format!("key pool: {}", pool.iter().map(|k| k.label.clone()).collect::<Vec<_>>().join(",")));
	let prop = match ctx.prop.as_str() {
		"C01" => Prop::C01,
		"C02" => Prop::C02,
		"C04" => Prop::C04,
		"C05" => Prop::C05,
		"C07" => Prop::C07,
		_ => Prop::C08,
	};
	let wants = |kind: &str| -> bool {
		match ctx.replay.as_ref() {
			None => true,
			Some(r) => match kind {
				"csr" => r.workload.starts_with("csr-"),
				"crl" => r.workload.starts_with("crl-"),
				_ => !r.workload.starts_with("csr-") && !r.workload.starts_with("crl-"),
			},
		}
	};
	if matches!(prop, Prop::C01 | Prop::C02 | Prop::C04 | Prop::C05) && wants("cert") {
		let issuers = certs::make_issuers(ctx, &pool, ctx.seed);
		if issuers.is_empty() {
			ctx.inconclusive("no issuer certificate could be generated");
			return (String::new(), String::new());
		}
		let w = certs::Workload { pool: &pool, issuers: &issuers };
		let n = match prop {
			Prop::C02 => ctx.scale(15_000, 400_000),
			Prop::C05 => ctx.scale(6_000, 150_000),
			_ => ctx.scale(6_000, 200_000),
		};
		certs::run(ctx, prop, &w, n);
		if prop == Prop::C02 && ctx.replay.as_ref().map_or(true, |r| r.workload == "api-surface") {
			c02_api_surface(ctx, &pool);
		}
		if prop == Prop::C05 {
			c05_serials(ctx, &pool);
		}
		if prop == Prop::C04 && ctx.replay.as_ref().map_or(true, |r| r.workload == "accepted-characters") {
			c04_accepted_characters(ctx);
		}
		if prop == Prop::C04 && ctx.replay.as_ref().map_or(true, |r| r.workload == "imported-names") {
			c04_imported_names(ctx, &pool);
		}
		if prop == Prop::C04 && ctx.replay.as_ref().map_or(true, |r| r.workload == "foreign-spki") {
			c04_foreign_spki(ctx, &pool);
		}
		if prop == Prop::C04 && ctx.replay.as_ref().map_or(true, |r| r.workload == "algorithms-by-oid") {
			c04_algorithms_by_oid(ctx);
		}
	}
	if matches!(prop, Prop::C01 | Prop::C04 | Prop::C05 | Prop::C07) && wants("csr") {
		csrs::run(ctx, prop, &pool, if prop == Prop::C07 { ctx.scale(12_000, 250_000) } else { ctx.scale(3_000, 80_000) });
	}
	if matches!(prop, Prop::C01 | Prop::C04 | Prop::C05 | Prop::C08) && wants("crl") {
		crls::run(ctx, prop, &pool, if prop == Prop::C08 { ctx.scale(8_000, 150_000) } else { ctx.scale(2_000, 60_000) });
	}
	if prop == Prop::C01 && ctx.replay.as_ref().map_or(true, |r| r.workload == "remote-rsa-many") {
		c01_remote_rsa_many(ctx);
	}
	if prop == Prop::C01 && ctx.replay.is_none() {
		c01_faults(ctx);
	}
	(
		"case = one generated parameter set (ParamSpec / CsrSpec / CrlSpec) x key x issuer x public-key source, built into a real artefact; enumerated workloads (extension-presence lattice, 512 key-usage subsets, prefix lengths, path lengths, key-id method grid, refusal lattice, entry lattice, ...) are distinct by construction, random cases are counted by hash of the expanded case and only when at least one non-default field is exercised".into(),
		"extension-presence lattice 128x3, 512 key-usage subsets, 2x256 prefix lengths x 4 constructors, 256 path lengths, 31x4 refusal lattice, 22x2 CRL entry lattice, 512 issuer key-usage sets: enumerated on every run".into(),
	)
}

/// C05: automatic serial numbers over many fresh subject keys
#[cfg(all(feature = "crypto", feature = "ossl"))]
fn c05_serials(ctx: &Ctx, _pool: &[crate::keys::PoolKey]) {
	use crate::ctx::{par_for, CaseId};
	let n = ctx.scale(3_000, 60_000);
	par_for(n, ctx.threads, |i| {
		let case = CaseId::new("auto-serial", ctx.seed, i);
		let alg = if i % 2 == 0 { &rcgen::PKCS_ED25519 } else { &rcgen::PKCS_ECDSA_P256_SHA256 };
		let kp = rcgen::KeyPair::generate_for(alg).expect("keygen");
		let p = rcgen::CertificateParams::default();
		match crate::guard(|| p.self_signed(&kp)) {
			Ok(Ok(c)) => match crate::x509::parse_certificate(c.der()) {
				Ok(v) => {
					let s = &v.serial;
					ctx.count("eval:auto_serial_keys");
					ctx.count(&format!("auto_serial_content_len_{}", s.len()));
					// which raw hash prefix did we see? first content octet classes, for the evidence
					ctx.count(if s[0] == 0 { "auto_serial_leading_zero_octet" } else if s[0] < 0x10 { "auto_serial_small_first_octet" } else { "auto_serial_other" });
					if s.len() > 20 || s[0] & 0x80 != 0 || s.iter().all(|b| *b == 0) {
						ctx.violation(
							"c05:auto-serial",
							&case,
							&format!("key={}", crate::util::hex(&kp.serialize_der())),
							&format!("automatic serial {} is not a positive non-zero integer of at most 20 octets", crate::util::hex(s)),
						);
					}
					// the property says the serial is derived from the key: observe the hash's first byte classes
					let h = crate::ossl::sha256(kp.public_key_raw());
					ctx.count(&format!("auto_serial_hash_top_bit_{}", h[0] >> 7));
					if h[0] == 0x80 || h[0] == 0x00 || h[0] == 0xff || h[0] == 0x7f {
						ctx.count("auto_serial_hash_first_byte_boundary");
					}
				},
				Err(e) => ctx.violation("c05:undecodable", &case, "default params", &e),
			},
			Ok(Err(e)) => ctx.violation("c05:cert-refused", &case, "default params", &e.to_string()),
			Err(p) => ctx.violation("c05:cert-panic", &case, "default params", &p),
		}
	});
}

/// C01: what a remote signer returns is embedded as it is. PKCS#1 v1.5 signatures are fixed-length octet
/// strings and about one in 256 begins with a zero octet (which an INTEGER-minded code path would strip):
/// enough artefacts are signed by remote RSA keys that such signatures occur (observed count in the evidence).
#[cfg(all(feature = "crypto", feature = "ossl"))]
fn c01_remote_rsa_many(ctx: &Ctx) {
	use crate::ctx::CaseId;
	use crate::keys::{remote, Fault};
	use crate::ossl::{self, SigAlg};
	let n = ctx.scale(2_400, 24_000);
	for (ki, sig) in [SigAlg::RsaSha256, SigAlg::RsaSha384, SigAlg::RsaSha512].into_iter().enumerate() {
		let der = ossl::rsa_pkcs8(2048);
		let spki = match ossl::spki_of_private(&der) {
			Ok(s) => s,
			Err(e) => return ctx.inconclusive(&format!("oracle cannot read its own RSA key: {}", e)),
		};
		let key = remote("remote-rsa-many", der, sig, Fault::None);
		let mut p = crate::spec::ParamSpec::minimal();
		p.is_ca = crate::spec::IsCaSpec::Ca(None);
		let issuer = match crate::guard(|| p.to_rcgen(None).self_signed(&key.kp)) {
			Ok(Ok(c)) => c,
			other => return ctx.violation("c01:issuer-setup", &CaseId::new("remote-rsa-many", ctx.seed, 0), &format!("{:?}", sig), &format!("{:?}", other.map(|r| r.map(|_| ()).map_err(|e| e.to_string())))),
		};
		crate::ctx::par_for(n / 3, ctx.threads, |i| {
			let case = CaseId::new("remote-rsa-many", ctx.seed, (ki as u64) << 32 | i);
			if let Some(r) = &ctx.replay {
				if r.workload != "remote-rsa-many" || r.index != case.index {
					return;
				}
			}
			let crl = rcgen::CertificateRevocationListParams {
				this_update: rcgen::date_time_ymd(2024, 1, 1),
				next_update: rcgen::date_time_ymd(2024, 2, 1),
				crl_number: rcgen::SerialNumber::from(ctx.seed.wrapping_mul(1_000_003).wrapping_add(i)),
				issuing_distribution_point: None,
				revoked_certs: vec![],
				key_identifier_method: rcgen::KeyIdMethod::Sha256,
			};
			let text = format!("{:?} remote key, CRL number {}", sig, ctx.seed.wrapping_mul(1_000_003).wrapping_add(i));
			ctx.count("eval:remote_rsa_artefacts");
			match crate::guard(|| crl.signed_by(&issuer, &key.kp)) {
				Err(pn) => ctx.violation("c01:crl-panic", &case, &text, &pn),
				Ok(Err(e)) => ctx.violation("c01:crl-refused", &case, &text, &e.to_string()),
				Ok(Ok(c)) => match crate::x509::split_signed_raw(c.der(), true) {
					Err(e) => ctx.violation("c01:crl:undecodable", &case, &text, &e),
					Ok((tbs, _, sigv)) => {
						if sigv.first() == Some(&0) || sigv.len() != 256 {
							ctx.count("outcome:remote-rsa:signature-with-leading-zero-or-short");
						}
						match ossl::verify_raw(sig, &spki, &tbs, &sigv) {
							Ok(true) => {},
							other => ctx.violation("c01:crl:signature-invalid", &case, &text, &format!("signature of {} octets (first octet {:?}) does not verify: {:?}", sigv.len(), sigv.first(), other)),
						}
					},
				},
			}
		});
	}
}

/// C01: a failing remote signer must yield an error and no artefact
#[cfg(all(feature = "crypto", feature = "ossl"))]
fn c01_faults(ctx: &Ctx) {
	use crate::ctx::CaseId;
	use crate::keys::{remote, Fault};
	use crate::ossl::{self, SigAlg};
	let mut idx = 0u64;
	let mut specs: Vec<(SigAlg, Vec<u8>)> = vec![
		(SigAlg::EcdsaSha256, ossl::ec_pkcs8(openssl::nid::Nid::X9_62_PRIME256V1)),
		(SigAlg::EcdsaSha384, ossl::ec_pkcs8(openssl::nid::Nid::SECP384R1)),
		(SigAlg::Ed25519, ossl::ed25519_pkcs8()),
		(SigAlg::RsaSha256, ossl::rsa_pkcs8(2048)),
	];
	if cfg!(feature = "aws") {
		specs.push((SigAlg::EcdsaSha512, ossl::ec_pkcs8(openssl::nid::Nid::SECP521R1)));
	}
	for (sig, der) in specs {
		// a healthy remote key to make the issuer certificate with
		let good = remote("good", der.clone(), sig, Fault::None);
		let mut p = crate::spec::ParamSpec::minimal();
		p.is_ca = crate::spec::IsCaSpec::Ca(None);
		let issuer = p.to_rcgen(None).self_signed(&good.kp).expect("issuer");
		for fail_at in 0..3usize {
			for kind in ["self_signed", "signed_by", "csr", "crl", "csr_signed_by"] {
				idx += 1;
				if kind == "csr_signed_by" && sig == SigAlg::EcdsaSha512 {
					// P-521 requests cannot be parsed back (known finding of C07)
					continue;
				}
				let case = CaseId::new("fault", ctx.seed, idx);
				let bad = remote("faulty", der.clone(), sig, Fault::FailAt(fail_at));
				let text = format!("{:?} {} fail_at_call={}", sig, kind, fail_at);
				let spec = crate::spec::ParamSpec::minimal();
				let r: Result<Result<usize, String>, String> = crate::guard(|| match kind {
					"self_signed" => spec.to_rcgen(None).self_signed(&bad.kp).map(|c| c.der().len()).map_err(|e| e.to_string()),
					"signed_by" => spec.to_rcgen(None).signed_by(&good.kp, &issuer, &bad.kp).map(|c| c.der().len()).map_err(|e| e.to_string()),
					"csr" => spec.to_rcgen(None).serialize_request(&bad.kp).map(|c| c.der().len()).map_err(|e| e.to_string()),
					"csr_signed_by" => {
						let csr = spec.to_rcgen(None).serialize_request(&good.kp).map_err(|e| e.to_string())?;
						let parsed = rcgen::CertificateSigningRequestParams::from_der(csr.der()).map_err(|e| format!("parse: {}", e))?;
						parsed.signed_by(&issuer, &bad.kp).map(|c| c.der().len()).map_err(|e| e.to_string())
					},
					_ => rcgen::CertificateRevocationListParams {
						this_update: rcgen::date_time_ymd(2024, 1, 1),
						next_update: rcgen::date_time_ymd(2024, 2, 1),
						crl_number: rcgen::SerialNumber::from_slice(&[1]),
						issuing_distribution_point: None,
						revoked_certs: vec![],
						key_identifier_method: rcgen::KeyIdMethod::Sha256,
					}
					.signed_by(&issuer, &bad.kp)
					.map(|c| c.der().len())
					.map_err(|e| e.to_string()),
				});
				let calls = bad.remote_log.as_ref().unwrap().lock().unwrap().msgs.len();
				ctx.count("eval:fault_injections");
				ctx.count(&format!("dist:fault:{}:{}", kind, fail_at));
				match r {
					Err(pn) => ctx.violation("c01:fault-panic", &case, &text, &pn),
					Ok(Ok(n)) => {
						// exactly one sign call is made per artefact, so only fail_at == 0 can fire
						if calls > fail_at {
							ctx.violation(
								"c01:signer-failure-swallowed",
								&case,
								&text,
								&format!("the signer failed at call {} ({} calls made) but an artefact of {} bytes was returned", fail_at, calls, n),
							);
						} else {
							ctx.count("eval:fault_not_reached");
						}
					},
					Ok(Err(_)) => {
						if calls <= fail_at {
							ctx.violation("c01:unexpected-error", &case, &text, "the call failed although the injected fault was never reached");
						}
						ctx.count("eval:fault_propagated");
					},
				}
				if calls > 1 {
					ctx.violation("c01:multiple-sign-calls", &case, &text, &format!("{} sign calls for one artefact", calls));
				}
			}
		}
	}
}

/// C15 / C16 workers. Arguments (key=value): keys=<file> mode=gen-keys|c15|dump|cross proc=<n> events=<file>
/// k=<cases> threads=<a,b,..> rounds=<m> other=<events file of the other back end> export=<dir>
fn table_dispatch(ctx: &Ctx, arg: &dyn Fn(&str) -> Option<String>) {
	let mode = arg("mode").unwrap_or_else(|| "c15".into());
	let keys_path = std::path::PathBuf::from(arg("keys").unwrap_or_else(|| ctx.out_dir.join("keys.txt").to_string_lossy().to_string()));
	if mode == "gen-keys" {
		#[cfg(all(feature = "crypto", feature = "ossl"))]
		{
			if let Err(e) = table::gen_keys(&keys_path) {
				ctx.inconclusive(&format!("key generation failed: {}", e));
			}
			ctx.count("eval:keys_generated");
		}
		#[cfg(not(all(feature = "crypto", feature = "ossl")))]
		ctx.inconclusive("gen-keys needs a crypto build");
		return;
	}
	let keys = if cfg!(miri) || mode == "miri" {
		table::dummy_keys()
	} else {
		match table::load_keys(&keys_path) {
			Ok(k) => k,
			Err(e) => {
				// a key that loads as another key in this back end is a C16 violation, anything else is a harness problem
				if e.contains("loads as another key") {
					ctx.violation("c16:key-exchange", &crate::ctx::CaseId::new("keys", ctx.seed, 0), &keys_path.to_string_lossy(), &e);
				} else {
					ctx.inconclusive(&format!("cannot load the key file: {}", e));
				}
				return;
			},
		}
	};
	let k: usize = arg("k").and_then(|s| s.parse().ok()).unwrap_or(if cfg!(miri) { 6 } else { ctx.scale(200, 2000) as usize });
	let proc_id: u64 = arg("proc").and_then(|s| s.parse().ok()).unwrap_or(0);
	let threads: Vec<usize> = arg("threads")
		.map(|s| s.split(',').filter_map(|x| x.parse().ok()).collect())
		.unwrap_or_else(|| if cfg!(miri) { vec![3] } else if ctx.quick() { vec![4, 16] } else { vec![2, 4, 16, 64] });
	let rounds: usize = arg("rounds").and_then(|s| s.parse().ok()).unwrap_or(if cfg!(miri) { 1 } else { ctx.scale(3, 10) as usize });
	let events_path = std::path::PathBuf::from(arg("events").unwrap_or_else(|| ctx.out_dir.join(format!("events-{}.jsonl", proc_id)).to_string_lossy().to_string()));
	match mode.as_str() {
		"dump" => {
			// C16: execute the portable cases once and record TBS hashes (and artefacts for cross verification)
			let iss = match table::issuers(&keys) {
				Ok(i) => i,
				Err(e) => return ctx.inconclusive(&format!("issuers: {}", e)),
			};
			let tab = table::table(ctx.seed, k, keys.len(), true);
			let mut ev = Vec::new();
			let mut arts = String::new();
			for c in &tab {
				let case = crate::ctx::CaseId::new("table", ctx.seed, c.idx as u64);
				match table::exec(c, &keys, &iss) {
					Err(e) => ctx.violation("c16:portable-case-fails", &case, &format!("{:?}", c), &e),
					Ok(x) => {
						ctx.count("eval:dumped");
						ev.push(table::Event {
							case: c.idx,
							phase: "dump".into(),
							thread: 0,
							round: 0,
							tbs: crate::util::fnv64(&x.tbs),
							der: crate::util::fnv64(&x.der),
							det: x.det,
							t0: 0,
							t1: 0,
						});
						if c.idx % 2 == 0 || matches!(c.kind, table::TKind::Csr { .. }) {
							let kind = match c.kind {
								table::TKind::Csr { .. } => "csr",
								table::TKind::Crl { .. } => "crl",
								_ => "cert",
							};
							let signer = match &c.kind {
								table::TKind::Issued { issuer } | table::TKind::Crl { issuer, .. } => iss.keys[*issuer],
								_ => c.key,
							};
							arts.push_str(&format!("{} {} {} {}\n", c.idx, kind, signer, crate::util::hex(&x.der)));
						}
					},
				}
			}
			// multi-step sequences every build can run: a CA certificate whose subject key identifier happens to be a hash
			// of its key (pre-specified, so the crypto-less build can write it) is imported, and the imported parameters
			// are used with ANOTHER key (roll-over) and as an issuer whose children carry an authority key identifier.
			// What an import recovers must not depend on the build: same to-be-signed bytes everywhere.
			for n in 0..32usize {
				use crate::spec::{IsCaSpec, KidSpec, ParamSpec};
				use crate::x509;
				let case = crate::ctx::CaseId::new("import-rollover", ctx.seed, n as u64);
				let (a, b) = (&keys[n % keys.len()], &keys[(n + 1 + n / keys.len()) % keys.len()]);
				let spki_a = a.kp.public_key_der();
				let how = [KidSpec::Sha256, KidSpec::Sha384, KidSpec::Sha512, KidSpec::Pre(vec![n as u8; 20])][n % 4].clone();
				let mut ca = ParamSpec::minimal();
				// the last eight: a certificate WITHOUT a subject key identifier (not a CA). A build may refuse to import it
				// (the crypto-less one does: nothing to hash with); builds that accept it must agree on what follows.
				ca.is_ca = if n < 24 { IsCaSpec::Ca(None) } else { IsCaSpec::No };
				ca.serial = Some(vec![9, n as u8]);
				ca.kid = KidSpec::Pre(how.derive(&spki_a));
				let text = format!("CA key {} with identifier {:?} of its key, imported, re-issued under key {} and used as issuer", a.label, how, b.label);
				let r = crate::guard(|| -> Result<Option<(Vec<u8>, Vec<u8>)>, String> {
					let c1 = ca.to_rcgen(None).self_signed(&a.kp).map_err(|e| e.to_string())?;
					let imp = match rcgen::CertificateParams::from_ca_cert_der(c1.der()) {
						Ok(p) => p,
						Err(_) => return Ok(None),
					};
					let c2 = imp.self_signed(&b.kp).map_err(|e| e.to_string())?;
					let (t2, _, _) = x509::split_signed_raw(c2.der(), true)?;
					let mut leaf = ParamSpec::minimal();
					leaf.serial = Some(vec![8, n as u8]);
					leaf.kid = KidSpec::Pre(vec![0x42; 20]);
					leaf.use_aki = true;
					let c3 = leaf.to_rcgen(None).signed_by(&a.kp, &c2, &b.kp).map_err(|e| e.to_string())?;
					let (t3, _, _) = x509::split_signed_raw(c3.der(), true)?;
					Ok(Some((t2, t3)))
				});
				match r {
					Err(p) => ctx.violation("c16:panic", &case, &text, &p),
					Ok(Err(e)) => ctx.violation("c16:portable-case-fails", &case, &text, &e),
					Ok(Ok(None)) => ctx.count("eval:import_rollover_refused"),
					Ok(Ok(Some((t2, t3)))) => {
						ctx.count("eval:import_rollover_sequences");
						for (j, t) in [t2, t3].iter().enumerate() {
							ev.push(table::Event { case: 1_000_000 + 2 * n + j, phase: "dump".into(), thread: 0, round: 0, tbs: crate::util::fnv64(t), der: 0, det: false, t0: 0, t1: 0 });
						}
					},
				}
			}
			ctx.count_n("dist:portable_cases", tab.len() as u64);
			table::write_events(&events_path, proc_id, crate::BACKEND, &ev, &tab.iter().map(|c| c.portable).collect::<Vec<_>>());
			let _ = std::fs::write(events_path.with_extension("artefacts"), arts);
			// export freshly generated keys of this back end for the other one to load
			#[cfg(all(feature = "crypto", feature = "ossl"))]
			if let Some(dir) = arg("export") {
				let _ = std::fs::create_dir_all(&dir);
				let mut lines = String::new();
				for a in keymon::all_sigalgs() {
					if let Some(alg) = crate::keys::rcgen_alg(a) {
						if let Ok(kp) = rcgen::KeyPair::generate_for(alg) {
							lines.push_str(&format!("{:?} {} {} {}\n", alg, crate::util::hex(&kp.serialize_der()), crate::util::hex(kp.public_key_raw()), crate::util::hex(kp.serialize_pem().as_bytes())));
						}
					}
				}
				// keys this build IMPORTED (the table keys: OpenSSL PKCS#8 v1 Ed25519 / EC / RSA among them), exported again
				for k in keys.iter().filter(|k| k.kp.as_remote().is_none()) {
					lines.push_str(&format!("{} {} {} {}\n", k.alg, crate::util::hex(&k.kp.serialize_der()), crate::util::hex(k.kp.public_key_raw()), crate::util::hex(k.kp.serialize_pem().as_bytes())));
				}
				// keys offered in their traditional encoding through every entry point, the PKCS#8-only ones
				// included: whatever this back end ACCEPTS it can export, and the export must load elsewhere
				for k in keys.iter().filter(|k| k.kp.as_remote().is_none() && !k.alg.contains("ED25519")) {
					let trad = match crate::ossl::load_private(&k.pkcs8) {
						Ok(pk) => pk.rsa().and_then(|r| r.private_key_to_der()).or_else(|_| pk.ec_key().and_then(|e| e.private_key_to_der())),
						Err(_) => continue,
					};
					let (trad, alg) = match (trad, table::alg_by_name(&k.alg)) {
						(Ok(t), Some(a)) => (t, a),
						_ => continue,
					};
					let label = if k.alg.contains("RSA") { "RSA PRIVATE KEY" } else { "EC PRIVATE KEY" };
					let tpem = crate::pemx::encode(label, &trad, "\n");
					let as_p8_pem = crate::pemx::encode("PRIVATE KEY", &trad, "\n");
					let attempts: Vec<(&str, Result<rcgen::KeyPair, rcgen::Error>)> = vec![
						("from_pkcs8_der_and_sign_algo", rcgen::KeyPair::from_pkcs8_der_and_sign_algo(&pki_types::PrivatePkcs8KeyDer::from(trad.clone()), alg)),
						("from_pkcs8_pem_and_sign_algo", rcgen::KeyPair::from_pkcs8_pem_and_sign_algo(&as_p8_pem, alg)),
						("try_from", rcgen::KeyPair::try_from(trad.as_slice())),
						("from_pem", rcgen::KeyPair::from_pem(&tpem)),
						("from_pem_and_sign_algo", rcgen::KeyPair::from_pem_and_sign_algo(&tpem, alg)),
					];
					for (how, r) in attempts {
						match r {
							Ok(kp) => {
								ctx.count(&format!("outcome:traditional-encoding-accepted:{}", how));
								lines.push_str(&format!("{:?} {} {} {}\n", kp.algorithm(), crate::util::hex(&kp.serialize_der()), crate::util::hex(kp.public_key_raw()), crate::util::hex(kp.serialize_pem().as_bytes())));
							},
							Err(_) => ctx.count(&format!("outcome:traditional-encoding-refused:{}", how)),
						}
					}
				}
				let _ = std::fs::write(std::path::Path::new(&dir).join(format!("exported-{}.txt", crate::BACKEND)), lines);
			}
		},
		#[cfg(all(feature = "crypto", feature = "ossl"))]
		"cross" => {
			// C16: verify the other back end's artefacts and load the keys it exported
			let other = arg("other").unwrap_or_default();
			let arts = std::fs::read_to_string(std::path::Path::new(&other).with_extension("artefacts")).unwrap_or_default();
			for line in arts.lines() {
				let f: Vec<&str> = line.split(' ').collect();
				if f.len() != 4 {
					continue;
				}
				let (idx, kind, signer, der) = (f[0].parse::<u64>().unwrap_or(0), f[1], f[2].parse::<usize>().unwrap_or(0), crate::util::unhex(f[3]).unwrap_or_default());
				let case = crate::ctx::CaseId::new("cross", ctx.seed, idx);
				let key = &keys[signer.min(keys.len() - 1)];
				let spki = crate::ossl::spki_of_private(&key.pkcs8).unwrap_or_default();
				let sig = crate::keys::sigalg_of(key.kp.algorithm());
				ctx.count("eval:cross_verified");
				match crate::x509::split_signed_raw(&der, true).and_then(|(tbs, _, s)| crate::ossl::verify_raw(sig, &spki, &tbs, &s)) {
					Ok(true) => {},
					other => ctx.violation("c16:cross-verify-openssl", &case, line, &format!("artefact of the other back end does not verify: {:?}", other)),
				}
				if kind == "csr" {
					match crate::guard(|| rcgen::CertificateSigningRequestParams::from_der(&pki_types::CertificateSigningRequestDer::from(der.clone())).map(|_| ())) {
						Ok(Ok(())) => ctx.count("eval:cross_csr_accepted"),
						other => {
							// requests with custom extensions / non-standard EKUs are documented as unsupported by the parser
							let msg = format!("{:?}", other);
							if !msg.contains("UnsupportedExtension") {
								ctx.violation("c16:cross-csr-rejected", &case, line, &msg);
							}
						},
					}
				}
			}
			if let Some(dir) = arg("export") {
				let other_name = if crate::BACKEND == "ring" { "aws" } else { "ring" };
				let t = std::fs::read_to_string(std::path::Path::new(&dir).join(format!("exported-{}.txt", other_name))).unwrap_or_default();
				for (i, line) in t.lines().enumerate() {
					let f: Vec<&str> = line.split(' ').collect();
					if f.len() != 4 {
						continue;
					}
					let case = crate::ctx::CaseId::new("key-exchange", ctx.seed, i as u64);
					let alg = match table::alg_by_name(f[0]) {
						Some(a) => a,
						None => {
							ctx.count("exported_keys_of_algorithms_not_in_this_back_end");
							continue;
						},
					};
					let der = crate::util::unhex(f[1]).unwrap_or_default();
					let raw = crate::util::unhex(f[2]).unwrap_or_default();
					let pem = String::from_utf8(crate::util::unhex(f[3]).unwrap_or_default()).unwrap_or_default();
					ctx.count("eval:exchanged_keys");
					for (how, r) in [
						("try_from", crate::guard(|| rcgen::KeyPair::try_from(der.as_slice()).map_err(|e| e.to_string()))),
						("from_pem", crate::guard(|| rcgen::KeyPair::from_pem(&pem).map_err(|e| e.to_string()))),
						(
							"from_pkcs8_der_and_sign_algo",
							crate::guard(|| rcgen::KeyPair::from_pkcs8_der_and_sign_algo(&pki_types::PrivatePkcs8KeyDer::from(der.clone()), alg).map_err(|e| e.to_string())),
						),
						("from_pem_and_sign_algo", crate::guard(|| rcgen::KeyPair::from_pem_and_sign_algo(&pem, alg).map_err(|e| e.to_string()))),
					] {
						match r {
							Ok(Ok(kp)) => {
								// the hash of an RSA signature algorithm is not a property of the key
								let same_alg = kp.algorithm() == alg || (f[0].contains("RSA") && format!("{:?}", kp.algorithm()).contains("RSA"));
								if kp.public_key_raw() != raw.as_slice() || !same_alg {
									ctx.violation("c16:key-exchange", &case, line, &format!("{}: loads as {:?} with another public key or algorithm", how, kp.algorithm()));
								}
							},
							other => ctx.violation("c16:key-exchange", &case, line, &format!("{}: a key exported by the {} back end does not load: {:?}", how, other_name, other.map(|x| x.map(|_| ())))),
						}
					}
				}
			}
		},
		_ => {
			let ev = table::run_c15(ctx, &keys, k, &threads, rounds, proc_id);
			let portable_only = !cfg!(feature = "crypto");
			let tab = table::table(ctx.seed, k, keys.len(), portable_only);
			table::write_events(&events_path, proc_id, crate::BACKEND, &ev, &tab.iter().map(|c| c.portable).collect::<Vec<_>>());
		},
	}
}

/// C04: whatever character a string constructor ACCEPTS ends up in the DER; it must belong to the
/// alphabet of the tag it is written under (the generators above only produce in-alphabet text).
#[cfg(all(feature = "crypto", feature = "ossl"))]
fn c04_accepted_characters(ctx: &Ctx) {
	use crate::ctx::CaseId;
	use crate::spec::*;
	let key = crate::any_key();
	let mut chars: Vec<char> = (0u32..0x300).filter_map(char::from_u32).collect();
	chars.extend(['\u{7ff}', '\u{800}', '\u{d7ff}', '\u{e000}', '\u{fffd}', '\u{fffe}', '\u{ffff}', '\u{10000}', '\u{10ffff}']);
	for kind in ALL_KINDS {
		for (i, c) in chars.iter().enumerate() {
			let text = format!("a{}b", c);
			let v = match crate::guard(|| try_dn_value(kind, &text)) {
				Ok(Some(v)) => v,
				_ => continue,
			};
			let case = CaseId::new("accepted-characters", 0, (kind.tag() as u64) << 32 | i as u64);
			if let Some(r) = &ctx.replay {
				if r.index != case.index {
					continue;
				}
			}
			let mut p = rcgen::CertificateParams::default();
			let mut dn = rcgen::DistinguishedName::new();
			dn.push(rcgen::DnType::OrganizationName, v);
			p.distinguished_name = dn;
			ctx.count("eval:c04_accepted_characters");
			ctx.count("dist:c04_accepted_characters");
			let label = format!("{:?} accepted U+{:04X}", kind, *c as u32);
			match crate::guard(|| p.self_signed(&key)) {
				Ok(Ok(cert)) => {
					let mut errs = Vec::new();
					crate::derx::check_canonical(cert.der(), "cert", &mut errs);
					for e in errs {
						ctx.violation(&format!("c04:cert:{}", certs::classify(&e)), &case, &label, &e);
					}
				},
				Ok(Err(e)) => ctx.violation("c04:cert-refused", &case, &label, &e.to_string()),
				Err(pn) => ctx.violation("c04:cert-panic", &case, &label, &pn),
			}
		}
	}
}

/// C04: names that rcgen did not make itself are re-emitted too (the issuer field of everything an
/// imported CA issues, the subject of a certificate issued from an imported CSR). A foreign CA /
/// CSR whose restricted strings contain any single byte 0x00..0xFF is offered for import; if the
/// import is accepted, whatever is then emitted must still be strict DER within the alphabets.
#[cfg(all(feature = "crypto", feature = "ossl"))]
fn c04_imported_names(ctx: &Ctx, pool: &[crate::keys::PoolKey]) {
	use crate::ctx::CaseId;
	use openssl::asn1::Asn1Type;
	let key = match pool.iter().find(|k| !k.is_remote() && k.sig == crate::ossl::SigAlg::EcdsaSha256) {
		Some(k) => k,
		None => return ctx.inconclusive("no local P-256 key in the pool"),
	};
	let leaf_key = crate::any_key();
	let types = [
		(Asn1Type::PRINTABLESTRING, "printable"),
		(Asn1Type::IA5STRING, "ia5"),
		(Asn1Type::T61STRING, "t61"),
		(Asn1Type::UTF8STRING, "utf8"),
	];
	let mut texts: Vec<String> = (1u32..0x100).filter_map(char::from_u32).map(|c| format!("a{}b", c)).collect();
	texts.extend(["R&D Labs", "under_score", "star*", "a@b", "", "Ł.example", "日本"].map(String::from));
	let n = (types.len() * texts.len()) as u64;
	crate::ctx::par_for(n, ctx.threads, |i| {
		let case = CaseId::new("imported-names", 0, i);
		if let Some(r) = &ctx.replay {
			if r.index != i {
				return;
			}
		}
		let (ty, tyname) = types[(i as usize) % types.len()];
		let text = &texts[(i as usize) / types.len()];
		let label = format!("foreign CA subject O={:?} as {}", text, tyname);
		let mut rng = case.rng();
		let ca = match imports::make_ossl_ca_with(&mut rng, key, &[("C", Asn1Type::PRINTABLESTRING, "DE"), ("O", ty, text.as_str()), ("CN", Asn1Type::UTF8STRING, "imported")]) {
			Ok(c) => c,
			Err(_) => return ctx.count("outcome:imported-names:openssl-cannot-build"),
		};
		ctx.count("enum:imported-names");
		let mut src_errs = Vec::new();
		crate::derx::check_canonical(&ca.der, "foreign", &mut src_errs);
		if !src_errs.is_empty() {
			ctx.count("outcome:imported-names:foreign-name-outside-alphabet");
		}
		let der = pki_types::CertificateDer::from(ca.der.clone());
		let params = match crate::guard(|| rcgen::CertificateParams::from_ca_cert_der(&der)) {
			Ok(Ok(p)) => p,
			Ok(Err(_)) => return ctx.count("outcome:imported-names:import-refused"),
			Err(pn) => return ctx.violation("c04:import-panic", &case, &label, &pn),
		};
		ctx.count("outcome:imported-names:import-accepted");
		let issuer_cert = match crate::guard(|| params.self_signed(&key.kp)) {
			Ok(Ok(c)) => c,
			Ok(Err(_)) => return ctx.count("outcome:imported-names:reissue-refused"),
			Err(pn) => return ctx.violation("c04:cert-panic", &case, &label, &pn),
		};
		let mut emitted: Vec<(&str, Vec<u8>)> = vec![("re-issued CA certificate", issuer_cert.der().to_vec())];
		let mut leaf = rcgen::CertificateParams::default();
		leaf.distinguished_name.push(rcgen::DnType::CommonName, "leaf");
		match crate::guard(|| leaf.signed_by(&leaf_key, &issuer_cert, &key.kp)) {
			Ok(Ok(c)) => emitted.push(("leaf issued by the imported CA", c.der().to_vec())),
			Ok(Err(_)) => ctx.count("outcome:imported-names:leaf-refused"),
			Err(pn) => ctx.violation("c04:cert-panic", &case, &label, &pn),
		}
		let crl = rcgen::CertificateRevocationListParams {
			this_update: time::OffsetDateTime::from_unix_timestamp(1_700_000_000).unwrap(),
			next_update: time::OffsetDateTime::from_unix_timestamp(1_800_000_000).unwrap(),
			crl_number: rcgen::SerialNumber::from(1u64),
			issuing_distribution_point: None,
			revoked_certs: vec![],
			key_identifier_method: rcgen::KeyIdMethod::Sha256,
		};
		match crate::guard(|| crl.signed_by(&issuer_cert, &key.kp)) {
			Ok(Ok(c)) => emitted.push(("CRL issued by the imported CA", c.der().to_vec())),
			Ok(Err(_)) => ctx.count("outcome:imported-names:crl-refused"),
			Err(pn) => ctx.violation("c04:crl-panic", &case, &label, &pn),
		}
		// the same name arriving as the subject of a CSR
		if let Ok(csr) = imports_csr_with_subject(&key.der, ty, text) {
			let cd = pki_types::CertificateSigningRequestDer::from(csr);
			if let Ok(Ok(req)) = crate::guard(|| rcgen::CertificateSigningRequestParams::from_der(&cd)) {
				ctx.count("outcome:imported-names:csr-accepted");
				if let Ok(Ok(c)) = crate::guard(|| req.signed_by(&issuer_cert, &key.kp)) {
					emitted.push(("certificate issued from an imported CSR", c.der().to_vec()));
				}
			}
		}
		for (what, der) in emitted {
			ctx.count("eval:c04_imported_names_artefacts_walked");
			let mut errs = Vec::new();
			crate::derx::check_canonical(&der, "emitted", &mut errs);
			for e in errs {
				ctx.violation(&format!("c04:imported:{}", certs::classify(&e)), &case, &format!("{}: {}", label, what), &e);
			}
		}
	});
}

/// C04: a subject public key handed over as SubjectPublicKeyInfo is written into the certificate
/// issued for it. The loader reads BER-tolerantly, so the same key is offered with non-minimal
/// lengths at each of its three levels; whatever is accepted must come out as the canonical DER.
#[cfg(all(feature = "crypto", feature = "ossl"))]
fn c04_foreign_spki(ctx: &Ctx, pool: &[crate::keys::PoolKey]) {
	use crate::ctx::CaseId;
	use crate::derx;
	fn long_len(n: usize, extra: usize) -> Vec<u8> {
		// a length written with `extra` more octets than needed
		let min: Vec<u8> = n.to_be_bytes().iter().skip_while(|x| **x == 0).cloned().collect();
		let min = if min.is_empty() { vec![0] } else { min };
		let mut v = vec![0x80 | (min.len() + extra - if n < 128 { 1 } else { 0 }) as u8];
		v.extend(std::iter::repeat(0).take(extra - if n < 128 { 1 } else { 0 }));
		v.extend(min);
		v
	}
	let ik = crate::any_key();
	let mut cas = crate::spec::ParamSpec::minimal();
	cas.is_ca = crate::spec::IsCaSpec::Ca(None);
	let ca = match crate::guard(|| cas.to_rcgen(None).self_signed(&ik)) {
		Ok(Ok(c)) => c,
		other => return ctx.violation("c04:issuer-setup", &CaseId::new("foreign-spki", 0, 0), "minimal CA", &format!("{:?}", other.map(|r| r.map(|_| ()).map_err(|e| e.to_string())))),
	};
	let keys: Vec<&crate::keys::PoolKey> = pool.iter().filter(|k| !k.is_remote()).collect();
	for (ki, k) in keys.iter().enumerate() {
		let canon = k.kp.public_key_der();
		let (outer, _) = match derx::parse_one(&canon, true) {
			Ok(x) => x,
			Err(e) => {
				ctx.violation("c04:spki:not-der", &CaseId::new("foreign-spki", 0, ki as u64), &k.label, &e);
				continue;
			},
		};
		let kids = derx::parse_all(outer.content, true).unwrap_or_default();
		if kids.len() != 2 {
			continue;
		}
		for variant in 0..6u64 {
			let case = CaseId::new("foreign-spki", 0, (ki as u64) * 8 + variant);
			if let Some(r) = &ctx.replay {
				if r.index != case.index {
					continue;
				}
			}
			let (level, extra) = (variant % 3, 1 + (variant / 3) as usize);
			let reenc = |t: &derx::Tlv<'_>, long: bool| -> Vec<u8> {
				let mut v = vec![t.raw[0]];
				v.extend(if long { long_len(t.content.len(), extra) } else { crate::spec::der_len(t.content.len()) });
				v.extend(t.content);
				v
			};
			let mut content = reenc(&kids[0], level == 1);
			content.extend(reenc(&kids[1], level == 2));
			let mut ber = vec![0x30];
			ber.extend(if level == 0 { long_len(content.len(), extra) } else { crate::spec::der_len(content.len()) });
			ber.extend(content);
			let label = format!("key={} SubjectPublicKeyInfo with a non-minimal length at level {} (+{} octets): {}", k.label, level, extra, crate::util::hex(&ber));
			ctx.count("enum:foreign-spki");
			let r = crate::guard(|| -> Result<Option<Vec<u8>>, String> {
				let spki = match rcgen::SubjectPublicKeyInfo::from_der(&ber) {
					Ok(s) => s,
					Err(_) => return Ok(None),
				};
				let c = rcgen::CertificateParams::default().signed_by(&spki, &ca, &ik).map_err(|e| e.to_string())?;
				Ok(Some(c.der().to_vec()))
			});
			match r {
				Err(p) => ctx.violation("c04:cert-panic", &case, &label, &p),
				Ok(Err(e)) => ctx.violation("c04:cert-refused", &case, &label, &e),
				Ok(Ok(None)) => ctx.count("outcome:foreign-spki:refused"),
				Ok(Ok(Some(der))) => {
					ctx.count("outcome:foreign-spki:accepted");
					let mut errs = Vec::new();
					derx::check_canonical(&der, "cert", &mut errs);
					match crate::x509::parse_certificate(&der) {
						Ok(v) if v.spki.raw == canon => {},
						Ok(v) => errs.push(format!("subjectPublicKeyInfo written as {} instead of the canonical {}", crate::util::hex(&v.spki.raw), crate::util::hex(&canon))),
						Err(e) => errs.push(format!("schema: {}", e)),
					}
					for e in errs {
						ctx.violation(&format!("c04:foreign-spki:{}", certs::classify(&e)), &case, &label, &e);
					}
				},
			}
		}
	}
}

/// C04: the algorithms a caller can get hold of are not only the exported statics: whatever
/// `SignatureAlgorithm::from_oid` hands out for a well-known signature OID can be used for keys, and
/// then its AlgorithmIdentifier (parameters included) is part of every emitted structure.
#[cfg(all(feature = "crypto", feature = "ossl"))]
fn c04_algorithms_by_oid(ctx: &Ctx) {
	use crate::ctx::CaseId;
	let oids: [(&str, &[u64]); 14] = [
		("sha256WithRSAEncryption", &[1, 2, 840, 113549, 1, 1, 11]),
		("sha384WithRSAEncryption", &[1, 2, 840, 113549, 1, 1, 12]),
		("sha512WithRSAEncryption", &[1, 2, 840, 113549, 1, 1, 13]),
		("id-RSASSA-PSS", &[1, 2, 840, 113549, 1, 1, 10]),
		("sha1WithRSAEncryption", &[1, 2, 840, 113549, 1, 1, 5]),
		("sha224WithRSAEncryption", &[1, 2, 840, 113549, 1, 1, 14]),
		("rsaEncryption", &[1, 2, 840, 113549, 1, 1, 1]),
		("ecdsa-with-SHA1", &[1, 2, 840, 10045, 4, 1]),
		("ecdsa-with-SHA224", &[1, 2, 840, 10045, 4, 3, 1]),
		("ecdsa-with-SHA256", &[1, 2, 840, 10045, 4, 3, 2]),
		("ecdsa-with-SHA384", &[1, 2, 840, 10045, 4, 3, 3]),
		("ecdsa-with-SHA512", &[1, 2, 840, 10045, 4, 3, 4]),
		("id-Ed25519", &[1, 3, 101, 112]),
		("id-Ed448", &[1, 3, 101, 113]),
	];
	let rsa = crate::ossl::rsa_pkcs8(2048);
	let issuer_key = crate::any_key();
	let mut cas = crate::spec::ParamSpec::minimal();
	cas.is_ca = crate::spec::IsCaSpec::Ca(None);
	let ca = match crate::guard(|| cas.to_rcgen(None).self_signed(&issuer_key)) {
		Ok(Ok(c)) => c,
		_ => return ctx.inconclusive("cannot make the minimal CA for algorithms-by-oid"),
	};
	for (i, (name, oid)) in oids.iter().enumerate() {
		let case = CaseId::new("algorithms-by-oid", 0, i as u64);
		if let Some(r) = &ctx.replay {
			if r.index != i as u64 {
				continue;
			}
		}
		let alg = match crate::guard(|| rcgen::SignatureAlgorithm::from_oid(oid)) {
			Ok(Ok(a)) => a,
			Ok(Err(_)) => {
				ctx.count("outcome:algorithms-by-oid:not-offered");
				continue;
			},
			Err(p) => {
				ctx.violation("c04:from_oid-panic", &case, name, &p);
				continue;
			},
		};
		ctx.count("enum:algorithms-by-oid");
		// a key for it: generated where the back end can, otherwise an OpenSSL-made RSA key loaded for it
		let kp = match crate::guard(|| {
			rcgen::KeyPair::generate_for(alg).or_else(|_| rcgen::KeyPair::from_pkcs8_der_and_sign_algo(&pki_types::PrivatePkcs8KeyDer::from(rsa.clone()), alg))
		}) {
			Ok(Ok(k)) => k,
			_ => {
				ctx.count("outcome:algorithms-by-oid:no-key");
				continue;
			},
		};
		let label = format!("algorithm obtained by from_oid({}) = {:?}", name, alg);
		let mut arts: Vec<(&str, Vec<u8>)> = vec![("public_key_der", kp.public_key_der())];
		let r = crate::guard(|| -> Result<Vec<(&'static str, Vec<u8>)>, String> {
			let mut v = Vec::new();
			let mut p = rcgen::CertificateParams::default();
			p.is_ca = rcgen::IsCa::Ca(rcgen::BasicConstraints::Unconstrained);
			let own = p.clone().self_signed(&kp).map_err(|e| e.to_string())?;
			v.push(("self-signed certificate", own.der().to_vec()));
			v.push(("CSR", rcgen::CertificateParams::default().serialize_request(&kp).map_err(|e| e.to_string())?.der().to_vec()));
			v.push(("certificate issued for the key", rcgen::CertificateParams::default().signed_by(&kp, &ca, &issuer_key).map_err(|e| e.to_string())?.der().to_vec()));
			v.push(("certificate issued by the key", rcgen::CertificateParams::default().signed_by(&issuer_key, &own, &kp).map_err(|e| e.to_string())?.der().to_vec()));
			let crl = rcgen::CertificateRevocationListParams {
				this_update: time::OffsetDateTime::from_unix_timestamp(1_700_000_000).unwrap(),
				next_update: time::OffsetDateTime::from_unix_timestamp(1_800_000_000).unwrap(),
				crl_number: rcgen::SerialNumber::from(1u64),
				issuing_distribution_point: None,
				revoked_certs: vec![],
				key_identifier_method: rcgen::KeyIdMethod::Sha256,
			};
			v.push(("CRL", crl.signed_by(&own, &kp).map_err(|e| e.to_string())?.der().to_vec()));
			Ok(v)
		});
		match r {
			Ok(Ok(v)) => arts.extend(v),
			Ok(Err(e)) => ctx.violation("c04:cert-refused", &case, &label, &e),
			Err(p) => ctx.violation("c04:cert-panic", &case, &label, &p),
		}
		for (what, der) in arts {
			ctx.count("eval:c04_algorithms_by_oid_artefacts_walked");
			let mut errs = Vec::new();
			crate::derx::check_canonical(&der, what, &mut errs);
			for e in errs {
				ctx.violation(&format!("c04:by-oid:{}", certs::classify(&e)), &case, &format!("{}: {}", label, what), &e);
			}
		}
	}
}

#[cfg(all(feature = "crypto", feature = "ossl"))]
fn imports_csr_with_subject(key_der: &[u8], ty: openssl::asn1::Asn1Type, text: &str) -> Result<Vec<u8>, String> {
	let e = |x: openssl::error::ErrorStack| x.to_string();
	let pkey = crate::ossl::load_private(key_der)?;
	let mut nb = openssl::x509::X509NameBuilder::new().map_err(e)?;
	nb.append_entry_by_text_with_type("O", text, ty).map_err(e)?;
	nb.append_entry_by_text_with_type("CN", "requester", openssl::asn1::Asn1Type::UTF8STRING).map_err(e)?;
	let name = nb.build();
	let mut b = openssl::x509::X509ReqBuilder::new().map_err(e)?;
	b.set_version(0).map_err(e)?;
	b.set_subject_name(&name).map_err(e)?;
	b.set_pubkey(&pkey).map_err(e)?;
	b.sign(&pkey, openssl::hash::MessageDigest::sha256()).map_err(e)?;
	b.build().to_der().map_err(e)
}

/// C02: the convenience entry points and accessors say the same thing as the encoded certificate.
#[cfg(all(feature = "crypto", feature = "ossl"))]
fn c02_api_surface(ctx: &Ctx, pool: &[crate::keys::PoolKey]) {
	use crate::ctx::CaseId;
	use crate::spec::*;
	use crate::x509;
	for i in 0..ctx.scale(200, 5_000) {
		let case = CaseId::new("api-surface", ctx.seed, i);
		let mut rng = case.rng();
		// CertificateParams::new / generate_simple_self_signed: IP literals become iPAddress, the rest dNSName
		let names: Vec<String> = (0..rng.below(6))
			.map(|_| match rng.below(4) {
				0 => gen_ip(&mut rng).to_string(),
				1 => format!("{}.{}.{}", rng.below(300), rng.below(300), rng.below(300)),
				_ => gen_host(&mut rng),
			})
			.collect();
		let text = format!("names={:?}", names);
		ctx.count("eval:api_surface_cases");
		ctx.distinct(crate::util::fnv64(text.as_bytes()));
		let want: Vec<String> = {
			let mut v: Vec<String> = names
				.iter()
				.map(|s| match s.parse::<std::net::IpAddr>() {
					Ok(std::net::IpAddr::V4(a)) => format!("ip:{}", crate::util::hex(&a.octets())),
					Ok(std::net::IpAddr::V6(a)) => format!("ip:{}", crate::util::hex(&a.octets())),
					Err(_) => format!("dns:{}", crate::util::hex(s.as_bytes())),
				})
				.collect();
			v.sort();
			v
		};
		let check_sans = |der: &[u8], what: &str| match x509::parse_certificate(der) {
			Err(e) => ctx.violation("c02:api-surface:undecodable", &case, &text, &format!("{}: {}", what, e)),
			Ok(v) => {
				let mut got: Vec<String> = v
					.exts
					.iter()
					.flatten()
					.find(|e| e.oid == x509::OID_SAN)
					.and_then(|e| x509::parse_san(&e.value).ok())
					.map(|n| n.iter().map(gn_key).collect())
					.unwrap_or_default();
				got.sort();
				if got != want {
					ctx.violation("c02:api-surface:names", &case, &text, &format!("{}: certificate names {:?}, expected {:?}", what, got, want));
				}
			},
		};
		match crate::guard(|| rcgen::generate_simple_self_signed(names.clone())) {
			Err(p) => ctx.violation("c02:api-surface:panic", &case, &text, &p),
			Ok(Err(e)) => ctx.violation("c02:api-surface:refused", &case, &text, &e.to_string()),
			Ok(Ok(ck)) => {
				check_sans(ck.cert.der(), "generate_simple_self_signed");
				// the returned key is the certificate's key
				if let Ok(v) = x509::parse_certificate(ck.cert.der()) {
					if v.spki.raw != ck.key_pair.public_key_der() {
						ctx.violation("c02:api-surface:key", &case, &text, "CertifiedKey.key_pair is not the certificate's subject key");
					}
				}
				let as_ref: &rcgen::CertificateParams = ck.cert.as_ref();
				if as_ref != ck.cert.params() {
					ctx.violation("c02:api-surface:as-ref", &case, &text, "AsRef<CertificateParams> differs from params()");
				}
			},
		}
		if let Ok(Ok(p)) = crate::guard(|| rcgen::CertificateParams::new(names.clone())) {
			let k = &pool[(i % pool.len() as u64) as usize];
			let same: &rcgen::CertificateParams = p.as_ref();
			let _ = same;
			if let Ok(Ok(c)) = crate::guard(|| p.self_signed(&k.kp)) {
				check_sans(c.der(), "CertificateParams::new");
			}
		}
		// custom extension accessors report what was put in
		let oid = gen_custom_oid(&mut rng);
		let content = gen_der_value(&mut rng);
		let crit = rng.chance(1, 2);
		let mut e = rcgen::CustomExtension::from_oid_content(&oid, content.clone());
		e.set_criticality(crit);
		if e.criticality() != crit || e.content() != content.as_slice() || e.oid_components().collect::<Vec<_>>() != oid {
			ctx.violation("c02:api-surface:custom-extension-accessors", &case, &format!("{:?}", oid), "accessors differ from what was set");
		}
		// as_remote tells remote from local keys
		let k = &pool[(i % pool.len() as u64) as usize];
		if k.kp.as_remote().is_some() != k.is_remote() {
			ctx.violation("c02:api-surface:as-remote", &case, &k.label, "as_remote() disagrees with how the key was made");
		}
		if k.is_remote() && !format!("{:?}", k.kp).contains("Remote") {
			ctx.count("remote_key_debug_without_marker");
		}
	}
	// RSA generation: an error under ring, a key under aws-lc-rs, never a panic
	let case = CaseId::new("api-surface", ctx.seed, u64::MAX);
	match crate::guard(|| rcgen::KeyPair::generate_for(&rcgen::PKCS_RSA_SHA256).map(|k| k.public_key_der().len())) {
		Err(p) => ctx.violation("c02:api-surface:rsa-generation-panic", &case, "generate_for(PKCS_RSA_SHA256)", &p),
		Ok(r) => {
			if r.is_ok() != (crate::BACKEND == "aws") {
				ctx.violation("c02:api-surface:rsa-generation", &case, "generate_for(PKCS_RSA_SHA256)", &format!("{:?} under {}", r.map_err(|e| e.to_string()), crate::BACKEND));
			}
		},
	}
}
