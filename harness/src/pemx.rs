//! Strict RFC 7468 ("stricttextualmsg") decoder with its own base64, independent of the `pem` crate.

const B64: &[u8; 64] = b"ABCDEFGHIJKLMNOPQRSTUVWXYZabcdefghijklmnopqrstuvwxyz0123456789+/";

pub fn b64_encode(data: &[u8]) -> String {
	let mut o = String::new();
	for ch in data.chunks(3) {
		let b = [ch[0], *ch.get(1).unwrap_or(&0), *ch.get(2).unwrap_or(&0)];
		o.push(B64[(b[0] >> 2) as usize] as char);
		o.push(B64[(((b[0] & 3) << 4) | (b[1] >> 4)) as usize] as char);
		if ch.len() > 1 {
			o.push(B64[(((b[1] & 15) << 2) | (b[2] >> 6)) as usize] as char);
		} else {
			o.push('=');
		}
		if ch.len() > 2 {
			o.push(B64[(b[2] & 63) as usize] as char);
		} else {
			o.push('=');
		}
	}
	o
}

fn val(c: u8) -> Option<u8> {
	B64.iter().position(|x| *x == c).map(|p| p as u8)
}

/// Strict base64: canonical padding, no stray characters, unused bits zero.
pub fn b64_decode_strict(s: &[u8]) -> Result<Vec<u8>, String> {
	if s.len() % 4 != 0 {
		return Err("base64 length not a multiple of 4".into());
	}
	let mut out = Vec::with_capacity(s.len() / 4 * 3);
	let n = s.len() / 4;
	for (i, q) in s.chunks(4).enumerate() {
		let pad = q.iter().rev().take_while(|c| **c == b'=').count();
		if pad > 2 || (pad > 0 && i != n - 1) {
			return Err("misplaced base64 padding".into());
		}
		let mut v = [0u8; 4];
		for k in 0..4 - pad {
			v[k] = val(q[k]).ok_or_else(|| format!("invalid base64 character 0x{:02x}", q[k]))?;
		}
		out.push((v[0] << 2) | (v[1] >> 4));
		if pad < 2 {
			out.push((v[1] << 4) | (v[2] >> 2));
		} else if v[1] & 15 != 0 {
			return Err("non-canonical base64 (unused bits set)".into());
		}
		if pad < 1 {
			out.push((v[2] << 6) | v[3]);
		} else if pad == 1 && v[2] & 3 != 0 {
			return Err("non-canonical base64 (unused bits set)".into());
		}
	}
	Ok(out)
}

#[derive(Debug, Clone, PartialEq, Eq)]
pub struct Pem {
	pub label: String,
	pub data: Vec<u8>,
}

/// Decode a text that must be exactly one strict PEM block:
/// `-----BEGIN <label>-----` EOL, base64 lines of exactly 64 chars except the last (1..=64),
/// `-----END <label>-----` EOL; `eol` is the required line ending. Nothing before or after.
pub fn decode_strict(text: &str, eol: &str) -> Result<Pem, String> {
	let b = text;
	let begin = "-----BEGIN ";
	if !b.starts_with(begin) {
		return Err("does not start with -----BEGIN".into());
	}
	if !b.ends_with(eol) {
		return Err("does not end with the platform line ending".into());
	}
	let body = &b[..b.len() - eol.len()];
	let lines: Vec<&str> = body.split(eol).collect();
	if lines.len() < 2 {
		return Err("too few lines".into());
	}
	for l in &lines {
		if l.contains('\r') || l.contains('\n') {
			return Err("stray CR/LF inside a line (wrong line ending?)".into());
		}
	}
	let first = lines[0];
	let last = lines[lines.len() - 1];
	let label = first
		.strip_prefix(begin)
		.and_then(|r| r.strip_suffix("-----"))
		.ok_or("malformed BEGIN line")?;
	// label grammar: labelchar = %x21-2C / %x2E-7E, optionally separated by single space or '-'
	if !label.is_empty() {
		let lb = label.as_bytes();
		let okc = |c: u8| (0x21..=0x2c).contains(&c) || (0x2e..=0x7e).contains(&c);
		if !okc(lb[0]) || !okc(lb[lb.len() - 1]) {
			return Err("label starts or ends with a separator".into());
		}
		for w in lb.windows(2) {
			let sep = |c: u8| c == b' ' || c == b'-';
			if (!okc(w[0]) && !sep(w[0])) || (sep(w[0]) && sep(w[1])) {
				return Err("label violates RFC 7468 grammar".into());
			}
		}
	}
	if last != format!("-----END {}-----", label) {
		return Err(format!("END line {:?} does not match label {:?}", last, label));
	}
	let b64lines = &lines[1..lines.len() - 1];
	let mut joined = Vec::new();
	for (i, l) in b64lines.iter().enumerate() {
		let is_last = i == b64lines.len() - 1;
		if l.is_empty() {
			return Err("empty line inside the block".into());
		}
		if !is_last && l.len() != 64 {
			return Err(format!("base64 line {} has {} characters (expected 64)", i + 1, l.len()));
		}
		if is_last && l.len() > 64 {
			return Err(format!("last base64 line has {} characters", l.len()));
		}
		if !is_last && l.contains('=') {
			return Err("padding before the last line".into());
		}
		joined.extend_from_slice(l.as_bytes());
	}
	let data = b64_decode_strict(&joined)?;
	Ok(Pem {
		label: label.to_string(),
		data,
	})
}

/// Reference encoder (used for positive controls and for feeding loaders)
pub fn encode(label: &str, data: &[u8], eol: &str) -> String {
	let b = b64_encode(data);
	let mut o = format!("-----BEGIN {}-----{}", label, eol);
	for ch in b.as_bytes().chunks(64) {
		o.push_str(std::str::from_utf8(ch).unwrap());
		o.push_str(eol);
	}
	o.push_str(&format!("-----END {}-----{}", label, eol));
	o
}

#[cfg(test)]
mod tests {
	use super::*;
	#[test]
	fn roundtrip_and_rejects() {
		for n in 0..200usize {
			let d: Vec<u8> = (0..n).map(|i| (i * 7 + n) as u8).collect();
			let t = encode("X509 CRL", &d, "\n");
			if n == 0 {
				continue;
			}
			let p = decode_strict(&t, "\n").unwrap();
			assert_eq!(p.label, "X509 CRL");
			assert_eq!(p.data, d);
			assert!(decode_strict(&t.replace('\n', "\r\n"), "\n").is_err());
			assert!(decode_strict(&format!("{} ", t), "\n").is_err());
			assert!(decode_strict(&format!("\n{}", t), "\n").is_err());
		}
		// 76-column wrapping rejected
		let d = vec![7u8; 100];
		let b = b64_encode(&d);
		let mut t = String::from("-----BEGIN A-----\n");
		for ch in b.as_bytes().chunks(76) {
			t.push_str(std::str::from_utf8(ch).unwrap());
			t.push('\n');
		}
		t.push_str("-----END A-----\n");
		assert!(decode_strict(&t, "\n").is_err());
		assert!(b64_decode_strict(b"QUI=").is_ok());
		assert!(b64_decode_strict(b"QUJ=").is_err());
		assert!(b64_decode_strict(b"QR==").is_err());
		assert!(b64_decode_strict(b"Q===").is_err());
	}
}
