//! OpenSSL as an independent oracle: signature verification over raw bytes, key decoding,
//! hashing, certificate/CSR/CRL parsing, path validation.
#![cfg(feature = "ossl")]

use openssl::hash::MessageDigest;
use openssl::pkey::{Id, PKey, Private, Public};
use openssl::sign::Verifier;

use crate::derx;

pub fn sha256(b: &[u8]) -> Vec<u8> {
	openssl::hash::hash(MessageDigest::sha256(), b).unwrap().to_vec()
}

/// Signature algorithms by the DER of their AlgorithmIdentifier (transcribed from RFC 4055 / 5758 / 8410)
#[derive(Clone, Copy, Debug, PartialEq, Eq)]
pub enum SigAlg {
	RsaSha256,
	RsaSha384,
	RsaSha512,
	EcdsaSha256,
	EcdsaSha384,
	EcdsaSha512,
	Ed25519,
}

impl SigAlg {
	pub fn alg_id_der(self) -> Vec<u8> {
		let (oid, null): (&[u64], bool) = match self {
			SigAlg::RsaSha256 => (&[1, 2, 840, 113549, 1, 1, 11], true),
			SigAlg::RsaSha384 => (&[1, 2, 840, 113549, 1, 1, 12], true),
			SigAlg::RsaSha512 => (&[1, 2, 840, 113549, 1, 1, 13], true),
			SigAlg::EcdsaSha256 => (&[1, 2, 840, 10045, 4, 3, 2], false),
			SigAlg::EcdsaSha384 => (&[1, 2, 840, 10045, 4, 3, 3], false),
			SigAlg::EcdsaSha512 => (&[1, 2, 840, 10045, 4, 3, 4], false),
			SigAlg::Ed25519 => (&[1, 3, 101, 112], false),
		};
		let c = derx::encode_oid_content(oid);
		let mut inner = vec![0x06, c.len() as u8];
		inner.extend(c);
		if null {
			inner.extend([0x05, 0x00]);
		}
		let mut v = vec![0x30, inner.len() as u8];
		v.extend(inner);
		v
	}
	pub fn from_alg_id_der(der: &[u8]) -> Option<SigAlg> {
		[
			SigAlg::RsaSha256,
			SigAlg::RsaSha384,
			SigAlg::RsaSha512,
			SigAlg::EcdsaSha256,
			SigAlg::EcdsaSha384,
			SigAlg::EcdsaSha512,
			SigAlg::Ed25519,
		]
		.into_iter()
		.find(|a| a.alg_id_der() == der)
	}
	pub fn digest(self) -> Option<MessageDigest> {
		match self {
			SigAlg::RsaSha256 | SigAlg::EcdsaSha256 => Some(MessageDigest::sha256()),
			SigAlg::RsaSha384 | SigAlg::EcdsaSha384 => Some(MessageDigest::sha384()),
			SigAlg::RsaSha512 | SigAlg::EcdsaSha512 => Some(MessageDigest::sha512()),
			SigAlg::Ed25519 => None,
		}
	}
	pub fn key_id(self) -> Id {
		match self {
			SigAlg::RsaSha256 | SigAlg::RsaSha384 | SigAlg::RsaSha512 => Id::RSA,
			SigAlg::EcdsaSha256 | SigAlg::EcdsaSha384 | SigAlg::EcdsaSha512 => Id::EC,
			SigAlg::Ed25519 => Id::ED25519,
		}
	}
}

/// Verify `sig` over `msg` with the public key `spki_der` under `alg` (raw EVP_DigestVerify).
pub fn verify_raw(alg: SigAlg, spki_der: &[u8], msg: &[u8], sig: &[u8]) -> Result<bool, String> {
	let pk: PKey<Public> = PKey::public_key_from_der(spki_der).map_err(|e| format!("d2i_PUBKEY: {}", e))?;
	if pk.id() != alg.key_id() {
		return Err(format!("key type {:?} does not fit {:?}", pk.id(), alg));
	}
	match alg.digest() {
		Some(md) => {
			let mut v = Verifier::new(md, &pk).map_err(|e| e.to_string())?;
			v.update(msg).map_err(|e| e.to_string())?;
			Ok(v.verify(sig).unwrap_or(false))
		},
		None => {
			let mut v = Verifier::new_without_digest(&pk).map_err(|e| e.to_string())?;
			Ok(v.verify_oneshot(sig, msg).unwrap_or(false))
		},
	}
}

/// Description of a public key as OpenSSL decodes it from an SPKI
#[derive(Clone, Debug, PartialEq, Eq)]
pub struct PubDesc {
	pub kind: String,
	pub bits: u32,
	/// key material in a canonical form: RSA n||e, EC point, Ed25519 raw
	pub material: Vec<u8>,
}

pub fn describe_public(spki_der: &[u8]) -> Result<PubDesc, String> {
	let pk: PKey<Public> = PKey::public_key_from_der(spki_der).map_err(|e| format!("d2i_PUBKEY: {}", e))?;
	describe_pkey_public(&pk)
}

fn describe_pkey_public<T: openssl::pkey::HasPublic>(pk: &PKey<T>) -> Result<PubDesc, String> {
	match pk.id() {
		Id::RSA => {
			let r = pk.rsa().map_err(|e| e.to_string())?;
			let mut m = r.n().to_vec();
			m.push(0xff);
			m.extend(r.e().to_vec());
			Ok(PubDesc {
				kind: "rsa".into(),
				bits: pk.bits(),
				material: m,
			})
		},
		Id::EC => {
			let e = pk.ec_key().map_err(|e| e.to_string())?;
			let nid = e.group().curve_name().ok_or("unnamed curve")?;
			let mut ctx = openssl::bn::BigNumContext::new().unwrap();
			let pt = e
				.public_key()
				.to_bytes(e.group(), openssl::ec::PointConversionForm::UNCOMPRESSED, &mut ctx)
				.map_err(|e| e.to_string())?;
			Ok(PubDesc {
				kind: format!("ec:{}", nid.short_name().unwrap_or("?")),
				bits: pk.bits(),
				material: pt,
			})
		},
		Id::ED25519 => Ok(PubDesc {
			kind: "ed25519".into(),
			bits: pk.bits(),
			material: pk.raw_public_key().map_err(|e| e.to_string())?,
		}),
		other => Err(format!("unexpected key type {:?}", other)),
	}
}

/// Load a private key (PKCS#8 v1, SEC1, PKCS#1 through OpenSSL; PKCS#8 v2 Ed25519 - which OpenSSL
/// does not read - by extracting the seed with our own DER reader).
pub fn load_private(der: &[u8]) -> Result<PKey<Private>, String> {
	match PKey::private_key_from_der(der) {
		Ok(k) => Ok(k),
		Err(e) => {
			let seed = ed25519_seed_from_pkcs8(der).map_err(|m| format!("d2i_AutoPrivateKey: {} / own reader: {}", e, m))?;
			PKey::private_key_from_raw_bytes(&seed, Id::ED25519).map_err(|e| e.to_string())
		},
	}
}

fn ed25519_seed_from_pkcs8(der: &[u8]) -> Result<Vec<u8>, String> {
	let top = derx::parse_exact(der, false)?;
	let k = top.children(false)?;
	if k.len() < 3 {
		return Err("not a PKCS#8 structure".into());
	}
	let alg = k[1].children(false)?;
	if alg.is_empty() || derx::decode_oid(alg[0].content)? != [1, 3, 101, 112] {
		return Err("not an Ed25519 PKCS#8".into());
	}
	let inner = derx::parse_exact(k[2].content, false)?;
	if !inner.is_univ(derx::OCTET_STRING) || inner.content.len() != 32 {
		return Err("CurvePrivateKey is not a 32-byte OCTET STRING".into());
	}
	Ok(inner.content.to_vec())
}

pub fn describe_private(pkcs8_or_trad_der: &[u8]) -> Result<PubDesc, String> {
	let pk = load_private(pkcs8_or_trad_der)?;
	describe_pkey_public(&pk)
}

pub fn spki_of_private(der: &[u8]) -> Result<Vec<u8>, String> {
	let pk = load_private(der)?;
	pk.public_key_to_der().map_err(|e| e.to_string())
}

/// Private components of a key (for the C19 leak scanner): each is a big-endian byte string.
pub fn private_components(der: &[u8]) -> Result<Vec<(String, Vec<u8>)>, String> {
	let pk = load_private(der)?;
	let mut out = Vec::new();
	match pk.id() {
		Id::RSA => {
			let r = pk.rsa().map_err(|e| e.to_string())?;
			out.push(("d".to_string(), r.d().to_vec()));
			if let Some(x) = r.p() {
				out.push(("p".into(), x.to_vec()));
			}
			if let Some(x) = r.q() {
				out.push(("q".into(), x.to_vec()));
			}
			if let Some(x) = r.dmp1() {
				out.push(("dP".into(), x.to_vec()));
			}
			if let Some(x) = r.dmq1() {
				out.push(("dQ".into(), x.to_vec()));
			}
			if let Some(x) = r.iqmp() {
				out.push(("qInv".into(), x.to_vec()));
			}
		},
		Id::EC => {
			let e = pk.ec_key().map_err(|e| e.to_string())?;
			out.push(("scalar".into(), e.private_key().to_vec()));
		},
		Id::ED25519 => out.push(("seed".into(), pk.raw_private_key().map_err(|e| e.to_string())?)),
		other => return Err(format!("unexpected key type {:?}", other)),
	}
	Ok(out)
}

/// seconds since the epoch of an ASN1_TIME as OpenSSL reads it
pub fn asn1_time_unix(t: &openssl::asn1::Asn1TimeRef) -> Result<i64, String> {
	let epoch = openssl::asn1::Asn1Time::from_unix(0).map_err(|e| e.to_string())?;
	let d = epoch.diff(t).map_err(|e| e.to_string())?;
	Ok(d.days as i64 * 86400 + d.secs as i64)
}

pub fn rsa_pkcs8(bits: u32) -> Vec<u8> {
	let rsa = openssl::rsa::Rsa::generate(bits).expect("rsa keygen");
	PKey::from_rsa(rsa).unwrap().private_key_to_pkcs8().unwrap()
}

pub fn ec_pkcs8(nid: openssl::nid::Nid) -> Vec<u8> {
	let g = openssl::ec::EcGroup::from_curve_name(nid).unwrap();
	let k = openssl::ec::EcKey::generate(&g).unwrap();
	PKey::from_ec_key(k).unwrap().private_key_to_pkcs8().unwrap()
}

pub fn ed25519_pkcs8() -> Vec<u8> {
	PKey::generate_ed25519().unwrap().private_key_to_pkcs8().unwrap()
}

// ---------------------------------------------------------------- path validation helpers

/// Verdict of a path validator: Ok(()) accepted, Err(reason) rejected.
pub type Verdict = Result<(), String>;

pub struct VerifyOpts<'a> {
	pub at_unix: i64,
	pub purpose: Option<openssl::x509::X509PurposeId>,
	pub host: Option<&'a str>,
	pub ip: Option<std::net::IpAddr>,
	pub crl_pem_files: Vec<std::path::PathBuf>,
	pub crl_check: bool,
	pub x509_strict: bool,
}

impl<'a> VerifyOpts<'a> {
	pub fn at(at_unix: i64) -> Self {
		VerifyOpts {
			at_unix,
			purpose: None,
			host: None,
			ip: None,
			crl_pem_files: vec![],
			crl_check: false,
			x509_strict: false,
		}
	}
}

/// X509_verify_cert of `leaf` with untrusted `intermediates` against exactly the `trust` certificates.
pub fn openssl_verify(leaf: &[u8], intermediates: &[Vec<u8>], trust: &[Vec<u8>], o: &VerifyOpts<'_>) -> Result<Verdict, String> {
	use openssl::stack::Stack;
	use openssl::x509::store::{X509Lookup, X509StoreBuilder};
	use openssl::x509::verify::{X509VerifyFlags, X509VerifyParam};
	use openssl::x509::{X509StoreContext, X509};
	let e = |x: openssl::error::ErrorStack| x.to_string();
	let leaf = X509::from_der(leaf).map_err(|x| format!("leaf does not parse: {}", x))?;
	let mut sb = X509StoreBuilder::new().map_err(e)?;
	for t in trust {
		sb.add_cert(X509::from_der(t).map_err(|x| format!("trust anchor does not parse: {}", x))?).map_err(e)?;
	}
	let mut param = X509VerifyParam::new().map_err(e)?;
	param.set_time(o.at_unix as _);
	let mut flags = X509VerifyFlags::empty();
	if o.crl_check {
		flags |= X509VerifyFlags::CRL_CHECK;
	}
	if o.x509_strict {
		flags |= X509VerifyFlags::X509_STRICT;
	}
	param.set_flags(flags).map_err(e)?;
	if let Some(p) = o.purpose {
		param.set_purpose(p).map_err(e)?;
	}
	if let Some(h) = o.host {
		param.set_host(h).map_err(e)?;
	}
	if let Some(ip) = o.ip {
		param.set_ip(ip).map_err(e)?;
	}
	sb.set_param(&param).map_err(e)?;
	for f in &o.crl_pem_files {
		let l = sb.add_lookup(X509Lookup::file()).map_err(e)?;
		l.load_crl_file(f, openssl::ssl::SslFiletype::PEM).map_err(e)?;
	}
	let store = sb.build();
	let mut chain = Stack::new().map_err(e)?;
	for i in intermediates {
		chain
			.push(X509::from_der(i).map_err(|x| format!("intermediate does not parse: {}", x))?)
			.map_err(e)?;
	}
	let mut ctx = X509StoreContext::new().map_err(e)?;
	let res = ctx
		.init(&store, &leaf, &chain, |c| {
			let ok = c.verify_cert()?;
			Ok((ok, c.error().error_string().to_string(), c.error_depth()))
		})
		.map_err(e)?;
	Ok(if res.0 { Ok(()) } else { Err(format!("{} (depth {})", res.1, res.2)) })
}

/// webpki path validation. `usage`: 0 server auth, 1 client auth.
pub fn webpki_verify(leaf: &[u8], intermediates: &[Vec<u8>], trust: &[Vec<u8>], at_unix: i64, usage: u8) -> Result<Verdict, String> {
	use pki_types::{CertificateDer, UnixTime};
	let anchors_der: Vec<CertificateDer<'_>> = trust.iter().map(|t| CertificateDer::from(t.as_slice())).collect();
	let mut anchors = Vec::new();
	for a in &anchors_der {
		anchors.push(webpki::anchor_from_trusted_cert(a).map_err(|e| format!("anchor: {:?}", e))?);
	}
	let inter: Vec<CertificateDer<'_>> = intermediates.iter().map(|t| CertificateDer::from(t.as_slice())).collect();
	let leaf_der = CertificateDer::from(leaf);
	let ee = match webpki::EndEntityCert::try_from(&leaf_der) {
		Ok(e) => e,
		Err(e) => return Ok(Err(format!("EndEntityCert: {:?}", e))),
	};
	if at_unix < 0 {
		return Err("webpki cannot express times before 1970".into());
	}
	let time = UnixTime::since_unix_epoch(std::time::Duration::from_secs(at_unix as u64));
	// usages 2.. are custom purposes (DER content octets of the OIDs in mon::chains::CUSTOM_PURPOSES)
	const CUSTOM: [&[u8]; 3] = [&[0x2b, 6, 1, 4, 1, 0x83, 0xb2, 0x03, 1, 1], &[0x2b, 6, 1, 4, 1, 0x83, 0xb2, 0x03, 1, 2], &[0x2a, 3, 4]];
	let ku = match usage {
		0 => webpki::KeyUsage::server_auth(),
		1 => webpki::KeyUsage::client_auth(),
		n => webpki::KeyUsage::required_if_present(CUSTOM[(n as usize - 2) % 3]),
	};
	let r = ee.verify_for_usage(webpki::ALL_VERIFICATION_ALGS, &anchors, &inter, time, ku, None, None);
	Ok(match r {
		Ok(_) => Ok(()),
		Err(e) => Err(format!("{:?}", e)),
	})
}

/// does webpki (ring provider) support certificates signed with / carrying this algorithm?
pub fn webpki_supports(a: SigAlg) -> bool {
	!matches!(a, SigAlg::EcdsaSha512)
}

/// webpki path validation of `leaf` directly under `trust` with revocation checking against `crl_der`.
pub fn webpki_verify_with_crl(leaf: &[u8], trust: &[u8], crl_der: &[u8], at_unix: i64) -> Result<Verdict, String> {
	use pki_types::{CertificateDer, UnixTime};
	let anchor_der = CertificateDer::from(trust);
	let anchor = webpki::anchor_from_trusted_cert(&anchor_der).map_err(|e| format!("anchor: {:?}", e))?;
	let leaf_der = CertificateDer::from(leaf);
	let ee = match webpki::EndEntityCert::try_from(&leaf_der) {
		Ok(e) => e,
		Err(e) => return Ok(Err(format!("EndEntityCert: {:?}", e))),
	};
	let crl: webpki::CertRevocationList = webpki::BorrowedCertRevocationList::from_der(crl_der).map_err(|e| format!("crl: {:?}", e))?.into();
	let crls = [&crl];
	let rev = webpki::RevocationOptionsBuilder::new(&crls)
		.map_err(|_| "no crls".to_string())?
		.with_depth(webpki::RevocationCheckDepth::EndEntity)
		.with_status_policy(webpki::UnknownStatusPolicy::Deny)
		.build();
	let time = UnixTime::since_unix_epoch(std::time::Duration::from_secs(at_unix.max(0) as u64));
	let anchors = [anchor];
	let r = ee.verify_for_usage(webpki::ALL_VERIFICATION_ALGS, &anchors, &[], time, webpki::KeyUsage::server_auth(), Some(rev), None);
	let v = match r {
		Ok(_) => Ok(()),
		Err(e) => Err(format!("{:?}", e)),
	};
	Ok(v)
}
