//! Small self-contained helpers: PRNG, hex, JSON string escaping, hashing.

/// SplitMix64: tiny, seedable, good enough to drive workload generation.
#[derive(Clone, Debug)]
pub struct Rng(pub u64);

impl Rng {
	pub fn new(seed: u64) -> Self {
		Rng(seed ^ 0x9E37_79B9_7F4A_7C15)
	}
	/// Independent stream for (seed, stream name, index)
	pub fn derive(seed: u64, stream: &str, idx: u64) -> Self {
		let mut h = fnv64(stream.as_bytes()) ^ seed.wrapping_mul(0xD6E8_FEB8_6659_FD93);
		h ^= idx.wrapping_mul(0xA076_1D64_78BD_642F);
		let mut r = Rng(h);
		r.next_u64();
		r.next_u64();
		r
	}
	pub fn next_u64(&mut self) -> u64 {
		self.0 = self.0.wrapping_add(0x9E37_79B9_7F4A_7C15);
		let mut z = self.0;
		z = (z ^ (z >> 30)).wrapping_mul(0xBF58_476D_1CE4_E5B9);
		z = (z ^ (z >> 27)).wrapping_mul(0x94D0_49BB_1331_11EB);
		z ^ (z >> 31)
	}
	pub fn below(&mut self, n: u64) -> u64 {
		if n == 0 {
			0
		} else {
			self.next_u64() % n
		}
	}
	pub fn range(&mut self, lo: i64, hi_incl: i64) -> i64 {
		lo + self.below((hi_incl - lo + 1) as u64) as i64
	}
	pub fn chance(&mut self, num: u64, den: u64) -> bool {
		self.below(den) < num
	}
	pub fn pick<'a, T>(&mut self, xs: &'a [T]) -> &'a T {
		&xs[self.below(xs.len() as u64) as usize]
	}
	pub fn bytes(&mut self, n: usize) -> Vec<u8> {
		(0..n).map(|_| self.next_u64() as u8).collect()
	}
	pub fn shuffle<T>(&mut self, xs: &mut [T]) {
		for i in (1..xs.len()).rev() {
			let j = self.below(i as u64 + 1) as usize;
			xs.swap(i, j);
		}
	}
}

pub fn fnv64(b: &[u8]) -> u64 {
	let mut h: u64 = 0xcbf2_9ce4_8422_2325;
	for &x in b {
		h ^= x as u64;
		h = h.wrapping_mul(0x0000_0100_0000_01b3);
	}
	// final avalanche
	h ^= h >> 32;
	h = h.wrapping_mul(0xD6E8_FEB8_6659_FD93);
	h ^= h >> 32;
	h
}

pub fn hex(b: &[u8]) -> String {
	let mut s = String::with_capacity(b.len() * 2);
	for x in b {
		s.push_str(&format!("{:02x}", x));
	}
	s
}

pub fn unhex(s: &str) -> Option<Vec<u8>> {
	let s = s.trim();
	if s.len() % 2 != 0 {
		return None;
	}
	(0..s.len() / 2)
		.map(|i| u8::from_str_radix(&s[2 * i..2 * i + 2], 16).ok())
		.collect()
}

/// JSON string literal (with quotes)
pub fn jstr(s: &str) -> String {
	let mut o = String::with_capacity(s.len() + 2);
	o.push('"');
	for c in s.chars() {
		match c {
			'"' => o.push_str("\\\""),
			'\\' => o.push_str("\\\\"),
			'\n' => o.push_str("\\n"),
			'\r' => o.push_str("\\r"),
			'\t' => o.push_str("\\t"),
			c if (c as u32) < 0x20 => o.push_str(&format!("\\u{:04x}", c as u32)),
			c => o.push(c),
		}
	}
	o.push('"');
	o
}

/// Shorten long strings for samples
pub fn clip(s: &str, n: usize) -> String {
	if s.chars().count() <= n {
		s.to_string()
	} else {
		let t: String = s.chars().take(n).collect();
		format!("{}…(+{} chars)", t, s.chars().count() - n)
	}
}

/// Days from civil (proleptic Gregorian), Howard Hinnant's algorithm. Independent of the `time` crate.
pub fn days_from_civil(y: i64, m: i64, d: i64) -> i64 {
	let y = if m <= 2 { y - 1 } else { y };
	let era = if y >= 0 { y } else { y - 399 } / 400;
	let yoe = y - era * 400;
	let mp = (m + 9) % 12;
	let doy = (153 * mp + 2) / 5 + d - 1;
	let doe = yoe * 365 + yoe / 4 - yoe / 100 + doy;
	era * 146097 + doe - 719468
}

/// Civil date-time from unix seconds (UTC): (year, month, day, hour, minute, second)
pub fn civil_from_unix(t: i64) -> (i64, i64, i64, i64, i64, i64) {
	let days = t.div_euclid(86400);
	let sod = t.rem_euclid(86400);
	let z = days + 719468;
	let era = if z >= 0 { z } else { z - 146096 } / 146097;
	let doe = z - era * 146097;
	let yoe = (doe - doe / 1460 + doe / 36524 - doe / 146096) / 365;
	let y = yoe + era * 400;
	let doy = doe - (365 * yoe + yoe / 4 - yoe / 100);
	let mp = (5 * doy + 2) / 153;
	let d = doy - (153 * mp + 2) / 5 + 1;
	let m = if mp < 10 { mp + 3 } else { mp - 9 };
	let y = if m <= 2 { y + 1 } else { y };
	(y, m, d, sod / 3600, (sod % 3600) / 60, sod % 60)
}

pub fn unix_from_civil(y: i64, mo: i64, d: i64, h: i64, mi: i64, s: i64) -> i64 {
	days_from_civil(y, mo, d) * 86400 + h * 3600 + mi * 60 + s
}

#[cfg(test)]
mod tests {
	use super::*;
	#[test]
	fn civil_roundtrip() {
		for t in [-62167219200i64, 0, 1, -1, 253402300799, 946684800, -631152000, 2524608000] {
			let (y, m, d, h, mi, s) = civil_from_unix(t);
			assert_eq!(unix_from_civil(y, m, d, h, mi, s), t);
		}
		assert_eq!(civil_from_unix(0), (1970, 1, 1, 0, 0, 0));
		assert_eq!(civil_from_unix(-62167219200), (0, 1, 1, 0, 0, 0));
		assert_eq!(civil_from_unix(253402300799), (9999, 12, 31, 23, 59, 59));
	}
}
