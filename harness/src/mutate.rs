//! Structure-aware mutation of DER inputs (used by C06 and C10).
//!
//! Inputs are parsed (tolerantly) into an owned TLV tree in which OCTET STRING / BIT STRING
//! contents that are themselves DER are expanded, mutated at tree level (so that lengths of all
//! ancestors stay consistent and the mutant survives the outer parser and reaches inner code),
//! re-serialised, and optionally hit by byte-level mutations as well.

use crate::derx;
use crate::util::Rng;

#[derive(Clone, Debug)]
pub enum Body {
	Prim(Vec<u8>),
	Cons(Vec<Node>),
	/// primitive string type whose content (after `prefix`) is itself DER
	Encap(Vec<u8>, Vec<Node>),
}

#[derive(Clone, Debug)]
pub struct Node {
	pub id: Vec<u8>,
	pub body: Body,
}

pub fn parse_tree(input: &[u8], depth: usize) -> Option<Vec<Node>> {
	let tlvs = derx::parse_all(input, false).ok()?;
	let mut out = Vec::new();
	for t in tlvs {
		let idlen = t.raw.len() - t.content.len() - len_octets(t.raw, t.content.len());
		let id = t.raw[..idlen].to_vec();
		let body = if t.constructed {
			match if depth < 24 { parse_tree(t.content, depth + 1) } else { None } {
				Some(k) => Body::Cons(k),
				None => Body::Prim(t.content.to_vec()),
			}
		} else if t.class == 0 && t.tag == derx::OCTET_STRING && t.content.len() >= 2 && depth < 24 {
			match parse_tree(t.content, depth + 1) {
				Some(k) if !k.is_empty() => Body::Encap(vec![], k),
				_ => Body::Prim(t.content.to_vec()),
			}
		} else if t.class == 0 && t.tag == derx::BIT_STRING && t.content.len() >= 3 && t.content[0] == 0 && depth < 24 {
			match parse_tree(&t.content[1..], depth + 1) {
				Some(k) if !k.is_empty() && (t.content[1] == 0x30) => Body::Encap(vec![0], k),
				_ => Body::Prim(t.content.to_vec()),
			}
		} else {
			Body::Prim(t.content.to_vec())
		};
		out.push(Node { id, body });
	}
	Some(out)
}

fn len_octets(raw: &[u8], content_len: usize) -> usize {
	// number of length octets = total - id - content; id length found by scanning
	let mut i = 1;
	if raw[0] & 0x1f == 0x1f {
		while raw[i] & 0x80 != 0 {
			i += 1;
		}
		i += 1;
	}
	raw.len() - content_len - i
}

pub fn encode_len(n: usize, out: &mut Vec<u8>) {
	if n < 128 {
		out.push(n as u8);
	} else {
		let b: Vec<u8> = n.to_be_bytes().iter().cloned().skip_while(|x| *x == 0).collect();
		out.push(0x80 | b.len() as u8);
		out.extend(b);
	}
}

pub fn serialise(nodes: &[Node]) -> Vec<u8> {
	let mut out = Vec::new();
	for n in nodes {
		let content = match &n.body {
			Body::Prim(c) => c.clone(),
			Body::Cons(k) => serialise(k),
			Body::Encap(p, k) => {
				let mut v = p.clone();
				v.extend(serialise(k));
				v
			},
		};
		out.extend(&n.id);
		encode_len(content.len(), &mut out);
		out.extend(content);
	}
	out
}

fn count(nodes: &[Node]) -> usize {
	nodes
		.iter()
		.map(|n| {
			1 + match &n.body {
				Body::Prim(_) => 0,
				Body::Cons(k) | Body::Encap(_, k) => count(k),
			}
		})
		.sum()
}

/// apply `f` to the sibling list containing the `target`-th node (pre-order) and its index there
fn with_nth(nodes: &mut Vec<Node>, target: &mut usize, f: &mut dyn FnMut(&mut Vec<Node>, usize)) -> bool {
	for i in 0..nodes.len() {
		if *target == 0 {
			f(nodes, i);
			return true;
		}
		*target -= 1;
		let done = match &mut nodes[i].body {
			Body::Prim(_) => false,
			Body::Cons(k) | Body::Encap(_, k) => with_nth(k, target, f),
		};
		if done {
			return true;
		}
	}
	false
}

fn nth_clone(nodes: &[Node], target: &mut usize) -> Option<Node> {
	for n in nodes {
		if *target == 0 {
			return Some(n.clone());
		}
		*target -= 1;
		if let Body::Cons(k) | Body::Encap(_, k) = &n.body {
			if let Some(x) = nth_clone(k, target) {
				return Some(x);
			}
		}
	}
	None
}

const TAGS: [u8; 24] = [
	0x01, 0x02, 0x03, 0x04, 0x05, 0x06, 0x0a, 0x0c, 0x13, 0x14, 0x16, 0x17, 0x18, 0x1c, 0x1e, 0x30, 0x31, 0x80, 0x81, 0x82, 0xa0, 0xa3, 0xa4, 0x87,
];

/// One structure-level mutation. Returns a description.
pub fn mutate_tree(rng: &mut Rng, tree: &mut Vec<Node>, donors: &[Vec<Node>]) -> String {
	let n = count(tree);
	if n == 0 {
		return "empty".into();
	}
	let mut target = rng.below(n as u64) as usize;
	let op = rng.below(16);
	let donor: Option<Node> = if !donors.is_empty() {
		let d = rng.pick(donors);
		let dn = count(d);
		if dn > 0 {
			let mut t = rng.below(dn as u64) as usize;
			nth_clone(d, &mut t)
		} else {
			None
		}
	} else {
		None
	};
	let r1 = rng.next_u64();
	let r2 = rng.next_u64();
	let mut desc = String::new();
	let t0 = target;
	with_nth(tree, &mut target, &mut |sibs, i| {
		desc = match op {
			0 => {
				sibs.remove(i);
				"delete-node".into()
			},
			1 => {
				let c = sibs[i].clone();
				sibs.insert(i, c);
				"duplicate-node".into()
			},
			2 => {
				if sibs.len() > 1 {
					let j = (r1 as usize) % sibs.len();
					sibs.swap(i, j);
				}
				"swap-siblings".into()
			},
			3 => {
				let t = TAGS[(r1 as usize) % TAGS.len()];
				sibs[i].id = vec![t];
				format!("retag-{:02x}", t)
			},
			4 => {
				// flip the constructed bit only
				sibs[i].id[0] ^= 0x20;
				"flip-constructed-bit".into()
			},
			5 => {
				sibs[i].body = Body::Prim(vec![]);
				"empty-content".into()
			},
			6 => {
				let len = match &sibs[i].body {
					Body::Prim(c) => c.len(),
					_ => 8,
				};
				let mut r = Rng::new(r1);
				sibs[i].body = Body::Prim(r.bytes(len));
				"random-content-same-length".into()
			},
			7 => {
				let mut r = Rng::new(r1);
				let len = [0usize, 1, 2, 3, 4, 5, 7, 8, 9, 15, 16, 17, 31, 32, 33, 127, 128, 129, 255, 256, 1000, 70000][(r2 as usize) % 22];
				sibs[i].body = Body::Prim(r.bytes(len));
				format!("random-content-len-{}", len)
			},
			8 => {
				if let Body::Prim(c) = &mut sibs[i].body {
					if !c.is_empty() {
						let k = (r1 as usize) % c.len();
						c[k] ^= 1 << (r2 % 8);
					}
				}
				"flip-bit-in-leaf".into()
			},
			9 => {
				let specials: [&[u8]; 10] = [
					&[0x00],
					&[0xff],
					&[0x80],
					&[0x7f],
					&[0x01, 0x00],
					&[0x00, 0xff, 0xff, 0xff, 0xff],
					&[0xff, 0xff, 0xff, 0xff, 0xff, 0xff, 0xff, 0xff, 0xff],
					&[0x01, 0x00, 0x00, 0x00, 0x00, 0x00, 0x00, 0x00, 0x00],
					&[0x80, 0x00, 0x00, 0x00, 0x00, 0x00, 0x00, 0x00],
					&[0x00, 0x80],
				];
				sibs[i].body = Body::Prim(specials[(r1 as usize) % specials.len()].to_vec());
				"special-integer-content".into()
			},
			10 => {
				if let Some(d) = &donor {
					sibs[i] = d.clone();
				}
				"splice-replace".into()
			},
			11 => {
				if let Some(d) = &donor {
					sibs.insert(i, d.clone());
				}
				"splice-insert".into()
			},
			12 => {
				let inner = sibs[i].clone();
				sibs[i] = Node {
					id: vec![if r1 % 2 == 0 { 0x30 } else { 0x31 }],
					body: Body::Cons(vec![inner]),
				};
				"wrap".into()
			},
			13 => {
				sibs[i].body = Body::Cons(vec![]);
				"empty-constructed".into()
			},
			14 => {
				// text-ish leaf: replace by bytes outside ASCII / invalid UTF-8 / embedded NUL
				let v: &[u8] = [&[0xff, 0xfe][..], &[0xc3][..], &[0x00, 0x41, 0x00][..], &[0xed, 0xa0, 0x80][..], &[0xd8, 0x00][..], &[0x00, 0x11, 0x00, 0x00][..]][(r1 as usize) % 6];
				sibs[i].body = Body::Prim(v.to_vec());
				"bad-text-content".into()
			},
			_ => {
				// unwrap: replace a constructed node by its children
				if let Body::Cons(k) | Body::Encap(_, k) = sibs[i].body.clone() {
					sibs.remove(i);
					for (j, c) in k.into_iter().enumerate() {
						sibs.insert(i + j, c);
					}
				}
				"unwrap".into()
			},
		};
	});
	format!("{}@{}", desc, t0)
}

/// One byte-level mutation.
pub fn mutate_bytes(rng: &mut Rng, v: &mut Vec<u8>) -> String {
	if v.is_empty() {
		v.push(rng.next_u64() as u8);
		return "push".into();
	}
	let i = rng.below(v.len() as u64) as usize;
	match rng.below(9) {
		0 => {
			v[i] ^= 1 << rng.below(8);
			format!("bitflip@{}", i)
		},
		1 => {
			v[i] = rng.next_u64() as u8;
			format!("overwrite@{}", i)
		},
		2 => {
			v[i] = *rng.pick(&[0x00, 0xff, 0x80, 0x7f, 0x30, 0x81, 0x84]);
			format!("overwrite-special@{}", i)
		},
		3 => {
			let b = rng.next_u64() as u8;
			v.insert(i, b);
			format!("insert@{}", i)
		},
		4 => {
			v.remove(i);
			format!("delete@{}", i)
		},
		5 => {
			v.truncate(i);
			format!("truncate@{}", i)
		},
		6 => {
			let n = 1 + rng.below(8) as usize;
			let extra = rng.bytes(n);
			v.extend(extra);
			"extend".into()
		},
		7 => {
			let n = (1 + rng.below(16) as usize).min(v.len() - i);
			v.drain(i..i + n);
			format!("delete-range@{}+{}", i, n)
		},
		_ => {
			// non-minimal length re-encoding of the outermost element, when it has a short form length
			if v.len() > 2 && v[1] < 0x80 {
				let l = v[1];
				v[1] = 0x81;
				v.insert(2, l);
				"outer-length-long-form".into()
			} else {
				v[i] = v[i].wrapping_add(1);
				format!("increment@{}", i)
			}
		},
	}
}

/// A mutant of `input`: 1..3 mutations, tree-level and/or byte-level.
pub fn mutant(rng: &mut Rng, input: &[u8], donors: &[Vec<Node>]) -> (Vec<u8>, String) {
	let mut descs = Vec::new();
	let mut bytes = input.to_vec();
	let n = 1 + rng.below(3);
	for _ in 0..n {
		if rng.chance(2, 3) {
			if let Some(mut tree) = parse_tree(&bytes, 0) {
				descs.push(mutate_tree(rng, &mut tree, donors));
				bytes = serialise(&tree);
				continue;
			}
		}
		descs.push(mutate_bytes(rng, &mut bytes));
	}
	(bytes, descs.join("+"))
}

#[cfg(test)]
mod tests {
	use super::*;
	#[test]
	fn roundtrip() {
		let der = [0x30, 0x0c, 0x02, 0x01, 0x05, 0x04, 0x07, 0x30, 0x05, 0x0c, 0x03, 0x61, 0x62, 0x63];
		let t = parse_tree(&der, 0).unwrap();
		assert_eq!(serialise(&t), der);
		assert_eq!(count(&t), 5);
		let mut rng = Rng::new(5);
		for _ in 0..2000 {
			let (_m, _d) = mutant(&mut rng, &der, &[t.clone()]);
		}
	}
}
