//! Runtime-monitoring harness for rustls/rcgen (see /verif/DESIGN.md).
#![allow(clippy::all)]

pub mod ctx;
pub mod derx;
pub mod keys;
pub mod mon;
pub mod mutate;
pub mod ossl;
pub mod pemx;
pub mod spec;
pub mod util;
pub mod x509;

#[cfg(feature = "ring")]
pub const BACKEND: &str = "ring";
#[cfg(all(feature = "aws", not(feature = "ring")))]
pub const BACKEND: &str = "aws";
#[cfg(not(feature = "crypto"))]
pub const BACKEND: &str = "nocrypto";

use rcgen::{Error, KeyPair, RemoteKeyPair, SignatureAlgorithm};

/// A remote key that signs nothing useful: for workloads that only look at to-be-signed bytes
/// (crypto-less configuration, Miri).
pub struct DummyRemote {
	pub pk: Vec<u8>,
	pub alg: &'static SignatureAlgorithm,
	pub sig_len: usize,
}

impl RemoteKeyPair for DummyRemote {
	fn public_key(&self) -> &[u8] {
		&self.pk
	}
	fn sign(&self, msg: &[u8]) -> Result<Vec<u8>, Error> {
		// deterministic filler derived from the message
		let h = util::fnv64(msg).to_be_bytes();
		Ok((0..self.sig_len).map(|i| h[i % 8] ^ i as u8).collect())
	}
	fn algorithm(&self) -> &'static SignatureAlgorithm {
		self.alg
	}
}

pub fn dummy_key(seed: u8) -> KeyPair {
	KeyPair::from_remote(Box::new(DummyRemote {
		pk: (0..32).map(|i| seed.wrapping_mul(31).wrapping_add(i)).collect(),
		alg: &rcgen::PKCS_ED25519,
		sig_len: 64,
	}))
	.expect("from_remote")
}

/// A cheap signing key for workloads where the key does not matter.
pub fn any_key() -> KeyPair {
	#[cfg(feature = "crypto")]
	{
		KeyPair::generate_for(&rcgen::PKCS_ED25519).expect("keygen")
	}
	#[cfg(not(feature = "crypto"))]
	{
		dummy_key(7)
	}
}

/// Run `f`, turning a panic into `Err(location/message)`.
pub fn guard<T>(f: impl FnOnce() -> T) -> Result<T, String> {
	IN_GUARD.with(|g| g.set(g.get() + 1));
	let r = std::panic::catch_unwind(std::panic::AssertUnwindSafe(f));
	IN_GUARD.with(|g| g.set(g.get() - 1));
	match r {
		Ok(v) => Ok(v),
		Err(p) => {
			let msg = if let Some(s) = p.downcast_ref::<&str>() {
				s.to_string()
			} else if let Some(s) = p.downcast_ref::<String>() {
				s.clone()
			} else {
				"<non-string panic payload>".to_string()
			};
			let loc = LAST_PANIC_LOC.with(|l| l.borrow().clone());
			Err(format!("{} @ {}", msg, loc))
		},
	}
}

thread_local! {
	pub static IN_GUARD: std::cell::Cell<u32> = std::cell::Cell::new(0);
	pub static LAST_PANIC_LOC: std::cell::RefCell<String> = std::cell::RefCell::new(String::new());
}

/// Install a quiet panic hook that records the panic location for `guard`.
pub fn install_panic_hook() {
	std::panic::set_hook(Box::new(|info| {
		let loc = info
			.location()
			.map(|l| {
				// keep only the path tail so that signatures do not depend on where the registry lives
				let f = l.file();
				let tail: Vec<&str> = f.rsplit('/').take(3).collect();
				let tail: Vec<&str> = tail.into_iter().rev().collect();
				format!("{}:{}", tail.join("/"), l.line())
			})
			.unwrap_or_default();
		if IN_GUARD.with(|g| g.get()) == 0 {
			// a panic of the harness itself: say so loudly (./check maps it to inconclusive)
			eprintln!("HARNESS PANIC: {}", info);
		}
		LAST_PANIC_LOC.with(|l| *l.borrow_mut() = loc);
	}));
}
