//! Schema-aware decoders for Certificate, CertificationRequest, CertificateList and their
//! extensions, written from RFC 5280 / 2986 / 5480 / 8410 on top of `derx`. Every decoder is
//! strict: a structure that does not match the ASN.1 module is an error, and schema-dependent
//! DER rules (DEFAULT omitted, named-bit lists without trailing zero bits, ...) are checked here.

use crate::derx::*;

#[derive(Clone, Debug, PartialEq, Eq)]
pub struct Atv {
	/// arcs; empty when an arc does not fit 64 bits (then only `oid_raw` identifies the type)
	pub oid: Vec<u64>,
	/// DER content octets of the attribute type
	pub oid_raw: Vec<u8>,
	/// universal tag number of the value
	pub tag: u32,
	pub bytes: Vec<u8>,
}

impl Atv {
	/// decode the value to text with an independent decoder for each string type
	pub fn text(&self) -> R<String> {
		decode_string(self.tag, &self.bytes)
	}
}

pub fn decode_string(tag: u32, b: &[u8]) -> R<String> {
	match tag {
		UTF8 | PRINTABLE | IA5 | TELETEX => {
			String::from_utf8(b.to_vec()).map_err(|_| "not UTF-8/ASCII".to_string())
		},
		BMP => {
			if b.len() % 2 != 0 {
				return Err("odd BMP length".into());
			}
			let mut s = String::new();
			for ch in b.chunks(2) {
				let u = u16::from_be_bytes([ch[0], ch[1]]) as u32;
				s.push(char::from_u32(u).ok_or("surrogate in BMPString")?);
			}
			Ok(s)
		},
		UNIVERSAL => {
			if b.len() % 4 != 0 {
				return Err("UniversalString length".into());
			}
			let mut s = String::new();
			for ch in b.chunks(4) {
				let u = u32::from_be_bytes([ch[0], ch[1], ch[2], ch[3]]);
				s.push(char::from_u32(u).ok_or("not a scalar value")?);
			}
			Ok(s)
		},
		t => Err(format!("unexpected string tag {}", t)),
	}
}

#[derive(Clone, Debug, PartialEq, Eq)]
pub struct Name {
	pub raw: Vec<u8>,
	pub rdns: Vec<Vec<Atv>>,
}

impl Name {
	/// flattened attribute list (rcgen only writes single-valued RDNs)
	pub fn flat(&self) -> Vec<&Atv> {
		self.rdns.iter().flatten().collect()
	}
}

#[derive(Clone, Debug, PartialEq, Eq)]
pub struct TimeV {
	pub tag: u32,
	pub text: String,
	pub unix: i64,
}

#[derive(Clone, Debug, PartialEq, Eq)]
pub struct Ext {
	pub oid: Vec<u64>,
	pub critical: bool,
	pub value: Vec<u8>,
}

#[derive(Clone, Debug)]
pub struct Spki {
	pub raw: Vec<u8>,
	pub alg_raw: Vec<u8>,
	pub alg_oid: Vec<u64>,
	/// raw TLV of the parameters, if present
	pub alg_params: Option<Vec<u8>>,
	pub key: Vec<u8>,
}

#[derive(Clone, Debug)]
pub struct CertView {
	pub tbs_raw: Vec<u8>,
	pub outer_alg_raw: Vec<u8>,
	pub sig: Vec<u8>,
	pub version: Option<u64>,
	pub serial: Vec<u8>,
	pub inner_alg_raw: Vec<u8>,
	pub issuer: Name,
	pub not_before: TimeV,
	pub not_after: TimeV,
	pub subject: Name,
	pub spki: Spki,
	pub exts: Option<Vec<Ext>>,
}

#[derive(Clone, Debug, PartialEq, Eq)]
pub enum GeneralName {
	Other { oid: Vec<u64>, value: Vec<u8> },
	Rfc822(Vec<u8>),
	Dns(Vec<u8>),
	Dir(Name),
	Uri(Vec<u8>),
	Ip(Vec<u8>),
	Unknown(u32, Vec<u8>),
}

pub fn oid_of(t: &Tlv<'_>, what: &str) -> R<Vec<u64>> {
	t.expect_univ(OID, what)?;
	decode_oid(t.content)
}

thread_local! {
	/// set while a *foreign* certificate is read: its names may hold values outside their string alphabets
	static FOREIGN_NAMES: std::cell::Cell<bool> = const { std::cell::Cell::new(false) };
}

/// `parse_certificate` for certificates that rcgen did not write (trust anchors made by other tools):
/// attribute values are taken as they are, everything else is as strict as usual.
pub fn parse_certificate_foreign(der: &[u8]) -> R<CertView> {
	FOREIGN_NAMES.with(|f| f.set(true));
	let r = parse_certificate(der);
	FOREIGN_NAMES.with(|f| f.set(false));
	r
}

pub fn parse_name(t: &Tlv<'_>) -> R<Name> {
	t.expect_univ(SEQUENCE, "Name")?;
	let mut rdns = Vec::new();
	for rdn in t.children(true)? {
		rdn.expect_univ(SET, "RelativeDistinguishedName")?;
		let mut atvs = Vec::new();
		for atv in rdn.children(true)? {
			atv.expect_univ(SEQUENCE, "AttributeTypeAndValue")?;
			let k = atv.children(true)?;
			if k.len() != 2 {
				return Err("AttributeTypeAndValue must have 2 elements".into());
			}
			k[0].expect_univ(OID, "attribute type")?;
			oid_wellformed(k[0].content)?;
			let oid = decode_oid(k[0].content).unwrap_or_default();
			if k[1].class != 0 {
				return Err("attribute value is not a universal type".into());
			}
			if !FOREIGN_NAMES.with(|f| f.get()) {
				check_value(&k[1])?;
			}
			atvs.push(Atv {
				oid,
				oid_raw: k[0].content.to_vec(),
				tag: k[1].tag,
				bytes: k[1].content.to_vec(),
			});
		}
		if atvs.is_empty() {
			return Err("empty RDN SET".into());
		}
		rdns.push(atvs);
	}
	Ok(Name {
		raw: t.raw.to_vec(),
		rdns,
	})
}

pub fn parse_time(t: &Tlv<'_>) -> R<TimeV> {
	if !(t.is_univ(UTCTIME) || t.is_univ(GENTIME)) {
		return Err(format!("Time: unexpected tag {}/{}", t.class, t.tag));
	}
	check_value(t)?;
	Ok(TimeV {
		tag: t.tag,
		text: String::from_utf8_lossy(t.content).to_string(),
		unix: time_to_unix(t.tag, t.content)?,
	})
}

pub fn parse_bit_string(t: &Tlv<'_>, what: &str) -> R<(u8, Vec<u8>)> {
	t.expect_univ(BIT_STRING, what)?;
	check_value(t)?;
	Ok((t.content[0], t.content[1..].to_vec()))
}

pub fn parse_alg_id(t: &Tlv<'_>) -> R<(Vec<u64>, Option<Vec<u8>>)> {
	t.expect_univ(SEQUENCE, "AlgorithmIdentifier")?;
	let k = t.children(true)?;
	if k.is_empty() || k.len() > 2 {
		return Err("AlgorithmIdentifier must have 1 or 2 elements".into());
	}
	let oid = oid_of(&k[0], "algorithm")?;
	Ok((oid, k.get(1).map(|p| p.raw.to_vec())))
}

pub fn parse_spki(t: &Tlv<'_>) -> R<Spki> {
	t.expect_univ(SEQUENCE, "SubjectPublicKeyInfo")?;
	let k = t.children(true)?;
	if k.len() != 2 {
		return Err("SubjectPublicKeyInfo must have 2 elements".into());
	}
	let (alg_oid, alg_params) = parse_alg_id(&k[0])?;
	let (unused, key) = parse_bit_string(&k[1], "subjectPublicKey")?;
	if unused != 0 {
		return Err("subjectPublicKey has unused bits".into());
	}
	Ok(Spki {
		raw: t.raw.to_vec(),
		alg_raw: k[0].raw.to_vec(),
		alg_oid,
		alg_params,
		key,
	})
}

pub fn parse_spki_der(der: &[u8]) -> R<Spki> {
	parse_spki(&parse_exact(der, true)?)
}

pub fn parse_extensions(t: &Tlv<'_>) -> R<Vec<Ext>> {
	t.expect_univ(SEQUENCE, "Extensions")?;
	let mut out = Vec::new();
	for e in t.children(true)? {
		e.expect_univ(SEQUENCE, "Extension")?;
		let k = e.children(true)?;
		let (oid, critical, val) = match k.len() {
			2 => (oid_of(&k[0], "extnID")?, false, &k[1]),
			3 => {
				k[1].expect_univ(BOOLEAN, "critical")?;
				check_value(&k[1])?;
				if k[1].content[0] == 0 {
					return Err("critical DEFAULT FALSE encoded explicitly".into());
				}
				(oid_of(&k[0], "extnID")?, true, &k[2])
			},
			n => return Err(format!("Extension with {} elements", n)),
		};
		val.expect_univ(OCTET_STRING, "extnValue")?;
		check_value(val)?;
		out.push(Ext {
			oid,
			critical,
			value: val.content.to_vec(),
		});
	}
	if out.is_empty() {
		return Err("empty Extensions SEQUENCE".into());
	}
	Ok(out)
}

/// Split `SEQUENCE { tbs, AlgorithmIdentifier, BIT STRING }`
fn split_signed<'a>(der: &'a [u8], strict: bool) -> R<(Tlv<'a>, Tlv<'a>, Vec<u8>)> {
	let top = parse_exact(der, strict)?;
	top.expect_univ(SEQUENCE, "signed structure")?;
	let k = top.children(strict)?;
	if k.len() != 3 {
		return Err(format!("signed structure has {} elements", k.len()));
	}
	k[0].expect_univ(SEQUENCE, "to-be-signed part")?;
	k[1].expect_univ(SEQUENCE, "signatureAlgorithm")?;
	k[2].expect_univ(BIT_STRING, "signature")?;
	if k[2].content.is_empty() || k[2].content[0] != 0 {
		return Err("signature BIT STRING has unused bits".into());
	}
	let sig = k[2].content[1..].to_vec();
	Ok((k[0].clone(), k[1].clone(), sig))
}

/// (tbs bytes, outer algorithm bytes, signature) of any signed structure, BER tolerant if !strict
pub fn split_signed_raw(der: &[u8], strict: bool) -> R<(Vec<u8>, Vec<u8>, Vec<u8>)> {
	let (a, b, c) = split_signed(der, strict)?;
	Ok((a.raw.to_vec(), b.raw.to_vec(), c))
}

pub fn parse_certificate(der: &[u8]) -> R<CertView> {
	let (tbs, alg, sig) = split_signed(der, true)?;
	let k = tbs.children(true)?;
	let mut i = 0;
	let mut version = None;
	if k.get(0).map_or(false, |t| t.is_ctx(0)) {
		if !k[0].constructed {
			return Err("version tag must be explicit".into());
		}
		let v = k[0].children(true)?;
		if v.len() != 1 {
			return Err("version wrapper".into());
		}
		v[0].expect_univ(INTEGER, "version")?;
		check_value(&v[0])?;
		if v[0].content.len() != 1 {
			return Err("version out of range".into());
		}
		if v[0].content[0] == 0 {
			return Err("version v1 (DEFAULT) encoded explicitly".into());
		}
		version = Some(v[0].content[0] as u64);
		i = 1;
	}
	if k.len() < i + 6 {
		return Err("TBSCertificate too short".into());
	}
	k[i].expect_univ(INTEGER, "serialNumber")?;
	check_value(&k[i])?;
	let serial = k[i].content.to_vec();
	k[i + 1].expect_univ(SEQUENCE, "signature")?;
	parse_alg_id(&k[i + 1])?;
	let issuer = parse_name(&k[i + 2])?;
	k[i + 3].expect_univ(SEQUENCE, "validity")?;
	let v = k[i + 3].children(true)?;
	if v.len() != 2 {
		return Err("validity must have 2 elements".into());
	}
	let not_before = parse_time(&v[0])?;
	let not_after = parse_time(&v[1])?;
	let subject = parse_name(&k[i + 4])?;
	let spki = parse_spki(&k[i + 5])?;
	let mut exts = None;
	let mut j = i + 6;
	while j < k.len() {
		let t = &k[j];
		if t.is_ctx(3) && j == k.len() - 1 {
			if !t.constructed {
				return Err("extensions tag must be explicit".into());
			}
			let e = t.children(true)?;
			if e.len() != 1 {
				return Err("extensions wrapper".into());
			}
			exts = Some(parse_extensions(&e[0])?);
		} else if t.is_ctx(1) || t.is_ctx(2) {
			return Err("unique identifiers are not written by rcgen".into());
		} else {
			return Err(format!("unexpected element {}/{} in TBSCertificate", t.class, t.tag));
		}
		j += 1;
	}
	Ok(CertView {
		tbs_raw: tbs.raw.to_vec(),
		outer_alg_raw: alg.raw.to_vec(),
		sig,
		version,
		serial,
		inner_alg_raw: k[i + 1].raw.to_vec(),
		issuer,
		not_before,
		not_after,
		subject,
		spki,
		exts,
	})
}

// ---------------------------------------------------------------- extensions

pub const OID_SKI: &[u64] = &[2, 5, 29, 14];
pub const OID_KU: &[u64] = &[2, 5, 29, 15];
pub const OID_SAN: &[u64] = &[2, 5, 29, 17];
pub const OID_BC: &[u64] = &[2, 5, 29, 19];
pub const OID_CRL_NUMBER: &[u64] = &[2, 5, 29, 20];
pub const OID_REASON: &[u64] = &[2, 5, 29, 21];
pub const OID_INVALIDITY: &[u64] = &[2, 5, 29, 24];
pub const OID_IDP: &[u64] = &[2, 5, 29, 28];
pub const OID_NC: &[u64] = &[2, 5, 29, 30];
pub const OID_CRLDP: &[u64] = &[2, 5, 29, 31];
pub const OID_AKI: &[u64] = &[2, 5, 29, 35];
pub const OID_EKU: &[u64] = &[2, 5, 29, 37];
pub const OID_EXT_REQ: &[u64] = &[1, 2, 840, 113549, 1, 9, 14];

/// KeyUsage: returns the set of named bits (bit i set <=> mask & (1<<i))
pub fn parse_ku(value: &[u8]) -> R<u16> {
	let t = parse_exact(value, true)?;
	let (unused, bytes) = parse_bit_string(&t, "KeyUsage")?;
	if bytes.len() > 2 {
		return Err("KeyUsage longer than 9 bits".into());
	}
	let nbits = bytes.len() * 8 - unused as usize;
	if nbits > 9 {
		return Err("KeyUsage has more than 9 bits".into());
	}
	if nbits > 0 {
		// named bit list: the last bit of the string must be a one (no trailing zero bits)
		let last_bit_index = nbits - 1;
		let byte = bytes[last_bit_index / 8];
		if byte & (0x80 >> (last_bit_index % 8)) == 0 {
			return Err("KeyUsage named-bit list has trailing zero bits".into());
		}
	}
	let mut mask = 0u16;
	for i in 0..nbits {
		if bytes[i / 8] & (0x80 >> (i % 8)) != 0 {
			mask |= 1 << i;
		}
	}
	Ok(mask)
}

pub fn parse_general_name(t: &Tlv<'_>) -> R<GeneralName> {
	if t.class != 2 {
		return Err("GeneralName without context tag".into());
	}
	let ia5 = |t: &Tlv<'_>| -> R<Vec<u8>> {
		if t.constructed {
			return Err("IA5String GeneralName must be primitive".into());
		}
		if t.content.iter().any(|b| *b > 0x7f) {
			return Err("GeneralName IA5String contains non-ASCII".into());
		}
		Ok(t.content.to_vec())
	};
	Ok(match t.tag {
		0 => {
			if !t.constructed {
				return Err("otherName must be constructed".into());
			}
			let k = t.children(true)?;
			if k.len() != 2 {
				return Err("otherName must have 2 elements".into());
			}
			let oid = oid_of(&k[0], "otherName type-id")?;
			if !k[1].is_ctx(0) || !k[1].constructed {
				return Err("otherName value must be [0] EXPLICIT".into());
			}
			let v = k[1].children(true)?;
			if v.len() != 1 {
				return Err("otherName value wrapper".into());
			}
			let mut errs = Vec::new();
			walk(&v[0], "otherName", &mut errs, 0);
			if let Some(e) = errs.pop() {
				return Err(e);
			}
			GeneralName::Other {
				oid,
				value: v[0].raw.to_vec(),
			}
		},
		1 => GeneralName::Rfc822(ia5(t)?),
		2 => GeneralName::Dns(ia5(t)?),
		4 => {
			// Name is a CHOICE: the tag is EXPLICIT
			if !t.constructed {
				return Err("directoryName must be constructed".into());
			}
			let k = t.children(true)?;
			if k.len() != 1 {
				return Err("directoryName must wrap exactly one Name".into());
			}
			GeneralName::Dir(parse_name(&k[0])?)
		},
		6 => GeneralName::Uri(ia5(t)?),
		7 => {
			if t.constructed {
				return Err("iPAddress must be primitive".into());
			}
			GeneralName::Ip(t.content.to_vec())
		},
		n => GeneralName::Unknown(n, t.raw.to_vec()),
	})
}

pub fn parse_general_names(t: &Tlv<'_>) -> R<Vec<GeneralName>> {
	let mut out = Vec::new();
	for g in t.children(true)? {
		out.push(parse_general_name(&g)?);
	}
	Ok(out)
}

pub fn parse_san(value: &[u8]) -> R<Vec<GeneralName>> {
	let t = parse_exact(value, true)?;
	t.expect_univ(SEQUENCE, "SubjectAltName")?;
	let v = parse_general_names(&t)?;
	if v.is_empty() {
		return Err("empty GeneralNames".into());
	}
	Ok(v)
}

pub fn parse_eku(value: &[u8]) -> R<Vec<Vec<u64>>> {
	let t = parse_exact(value, true)?;
	t.expect_univ(SEQUENCE, "ExtKeyUsage")?;
	let mut out = Vec::new();
	for k in t.children(true)? {
		out.push(oid_of(&k, "KeyPurposeId")?);
	}
	if out.is_empty() {
		return Err("empty ExtKeyUsage".into());
	}
	Ok(out)
}

/// BasicConstraints: (cA, pathLenConstraint)
pub fn parse_bc(value: &[u8]) -> R<(bool, Option<u64>)> {
	let t = parse_exact(value, true)?;
	t.expect_univ(SEQUENCE, "BasicConstraints")?;
	let k = t.children(true)?;
	let mut i = 0;
	let mut ca = false;
	if k.get(0).map_or(false, |t| t.is_univ(BOOLEAN)) {
		check_value(&k[0])?;
		if k[0].content[0] == 0 {
			return Err("cA DEFAULT FALSE encoded explicitly".into());
		}
		ca = true;
		i = 1;
	}
	let mut path = None;
	if let Some(p) = k.get(i) {
		p.expect_univ(INTEGER, "pathLenConstraint")?;
		check_value(p)?;
		if p.content[0] & 0x80 != 0 || p.content.len() > 8 {
			return Err("pathLenConstraint out of range".into());
		}
		path = Some(p.content.iter().fold(0u64, |a, b| (a << 8) | *b as u64));
		i += 1;
	}
	if i != k.len() {
		return Err("trailing elements in BasicConstraints".into());
	}
	Ok((ca, path))
}

fn parse_subtrees(t: &Tlv<'_>) -> R<Vec<GeneralName>> {
	if !t.constructed {
		return Err("GeneralSubtrees must be constructed".into());
	}
	let mut out = Vec::new();
	for st in t.children(true)? {
		st.expect_univ(SEQUENCE, "GeneralSubtree")?;
		let k = st.children(true)?;
		if k.len() != 1 {
			return Err("GeneralSubtree: minimum must be omitted (DEFAULT 0) and maximum absent".into());
		}
		out.push(parse_general_name(&k[0])?);
	}
	if out.is_empty() {
		return Err("empty GeneralSubtrees".into());
	}
	Ok(out)
}

/// NameConstraints: (permitted, excluded)
pub fn parse_nc(value: &[u8]) -> R<(Vec<GeneralName>, Vec<GeneralName>)> {
	let t = parse_exact(value, true)?;
	t.expect_univ(SEQUENCE, "NameConstraints")?;
	let mut permitted = Vec::new();
	let mut excluded = Vec::new();
	let mut last = -1i32;
	for k in t.children(true)? {
		if k.class != 2 || k.tag > 1 || (k.tag as i32) <= last {
			return Err("NameConstraints: unexpected or out-of-order element".into());
		}
		last = k.tag as i32;
		if k.tag == 0 {
			permitted = parse_subtrees(&k)?;
		} else {
			excluded = parse_subtrees(&k)?;
		}
	}
	if permitted.is_empty() && excluded.is_empty() {
		return Err("empty NameConstraints".into());
	}
	Ok((permitted, excluded))
}

fn parse_dp_name(t: &Tlv<'_>) -> R<Vec<GeneralName>> {
	// [0] DistributionPointName (a CHOICE => explicit) { fullName [0] GeneralNames }
	if !t.is_ctx(0) || !t.constructed {
		return Err("distributionPoint must be [0] constructed".into());
	}
	let k = t.children(true)?;
	if k.len() != 1 || !k[0].is_ctx(0) || !k[0].constructed {
		return Err("only fullName [0] is written by rcgen".into());
	}
	let names = parse_general_names(&k[0])?;
	if names.is_empty() {
		return Err("empty fullName".into());
	}
	Ok(names)
}

/// CRLDistributionPoints: one GeneralNames (fullName) per point
pub fn parse_crldp(value: &[u8]) -> R<Vec<Vec<GeneralName>>> {
	let t = parse_exact(value, true)?;
	t.expect_univ(SEQUENCE, "CRLDistributionPoints")?;
	let mut out = Vec::new();
	for dp in t.children(true)? {
		dp.expect_univ(SEQUENCE, "DistributionPoint")?;
		let k = dp.children(true)?;
		if k.len() != 1 {
			return Err("DistributionPoint: exactly distributionPoint expected".into());
		}
		out.push(parse_dp_name(&k[0])?);
	}
	if out.is_empty() {
		return Err("empty CRLDistributionPoints".into());
	}
	Ok(out)
}

pub fn parse_ski(value: &[u8]) -> R<Vec<u8>> {
	let t = parse_exact(value, true)?;
	t.expect_univ(OCTET_STRING, "SubjectKeyIdentifier")?;
	check_value(&t)?;
	Ok(t.content.to_vec())
}

/// AuthorityKeyIdentifier: keyIdentifier only (what rcgen writes)
pub fn parse_aki(value: &[u8]) -> R<Vec<u8>> {
	let t = parse_exact(value, true)?;
	t.expect_univ(SEQUENCE, "AuthorityKeyIdentifier")?;
	let k = t.children(true)?;
	if k.len() != 1 || !k[0].is_ctx(0) || k[0].constructed {
		return Err("AuthorityKeyIdentifier: exactly keyIdentifier [0] expected".into());
	}
	Ok(k[0].content.to_vec())
}

/// IssuingDistributionPoint: (fullName, onlyUser, onlyCA)
pub fn parse_idp(value: &[u8]) -> R<(Vec<GeneralName>, bool, bool)> {
	let t = parse_exact(value, true)?;
	t.expect_univ(SEQUENCE, "IssuingDistributionPoint")?;
	let k = t.children(true)?;
	if k.is_empty() {
		return Err("IssuingDistributionPoint without distributionPoint".into());
	}
	let names = parse_dp_name(&k[0])?;
	let mut user = false;
	let mut ca = false;
	let mut last = 0;
	for b in &k[1..] {
		if b.class != 2 || b.constructed || b.tag <= last || !(1..=2).contains(&b.tag) {
			return Err("IssuingDistributionPoint: unexpected element".into());
		}
		last = b.tag;
		if b.content.len() != 1 || (b.content[0] != 0 && b.content[0] != 0xff) {
			return Err("IssuingDistributionPoint: bad BOOLEAN".into());
		}
		if b.content[0] == 0 {
			return Err("IssuingDistributionPoint: DEFAULT FALSE encoded".into());
		}
		if b.tag == 1 {
			user = true;
		} else {
			ca = true;
		}
	}
	Ok((names, user, ca))
}

/// Canonicity of the *content* of a known extension (walk generic rules + schema rules).
/// Unknown (caller-supplied) extensions are not inspected.
pub fn check_known_extension(e: &Ext, errs: &mut Vec<String>, path: &str) {
	let known: &[&[u64]] = &[
		OID_SKI, OID_KU, OID_SAN, OID_BC, OID_CRL_NUMBER, OID_REASON, OID_INVALIDITY, OID_IDP, OID_NC,
		OID_CRLDP, OID_AKI, OID_EKU,
	];
	if !known.iter().any(|k| *k == e.oid.as_slice()) {
		return;
	}
	check_canonical(&e.value, path, errs);
	let r: R<()> = match e.oid.as_slice() {
		x if x == OID_SKI => parse_ski(&e.value).map(|_| ()),
		x if x == OID_KU => parse_ku(&e.value).map(|_| ()),
		x if x == OID_SAN => parse_san(&e.value).map(|_| ()),
		x if x == OID_BC => parse_bc(&e.value).map(|_| ()),
		x if x == OID_NC => parse_nc(&e.value).map(|_| ()),
		x if x == OID_CRLDP => parse_crldp(&e.value).map(|_| ()),
		x if x == OID_AKI => parse_aki(&e.value).map(|_| ()),
		x if x == OID_EKU => parse_eku(&e.value).map(|_| ()),
		x if x == OID_IDP => parse_idp(&e.value).map(|_| ()),
		x if x == OID_CRL_NUMBER => parse_exact(&e.value, true).and_then(|t| {
			t.expect_univ(INTEGER, "CRLNumber")?;
			check_value(&t)
		}),
		x if x == OID_REASON => parse_exact(&e.value, true).and_then(|t| {
			t.expect_univ(ENUMERATED, "CRLReason")?;
			check_value(&t)
		}),
		x if x == OID_INVALIDITY => parse_exact(&e.value, true).and_then(|t| {
			t.expect_univ(GENTIME, "invalidityDate must be GeneralizedTime")?;
			check_value(&t)
		}),
		_ => Ok(()),
	};
	if let Err(m) = r {
		errs.push(format!("{}: {}", path, m));
	}
}

// ---------------------------------------------------------------- CSR

#[derive(Clone, Debug)]
pub struct CsrAttr {
	pub oid: Vec<u64>,
	/// the complete SET TLV of values
	pub values_raw: Vec<u8>,
	pub raw: Vec<u8>,
}

#[derive(Clone, Debug)]
pub struct CsrView {
	pub cri_raw: Vec<u8>,
	pub outer_alg_raw: Vec<u8>,
	pub sig: Vec<u8>,
	pub version: u64,
	pub subject: Name,
	pub spki: Spki,
	/// None if the [0] attributes field is missing (a violation of RFC 2986)
	pub attrs: Option<Vec<CsrAttr>>,
}

pub fn parse_csr(der: &[u8]) -> R<CsrView> {
	let (cri, alg, sig) = split_signed(der, true)?;
	let k = cri.children(true)?;
	if k.len() < 3 {
		return Err("CertificationRequestInfo too short".into());
	}
	k[0].expect_univ(INTEGER, "version")?;
	check_value(&k[0])?;
	if k[0].content.len() != 1 {
		return Err("CSR version out of range".into());
	}
	let version = k[0].content[0] as u64;
	let subject = parse_name(&k[1])?;
	let spki = parse_spki(&k[2])?;
	let mut attrs = None;
	if k.len() > 4 {
		return Err("trailing elements in CertificationRequestInfo".into());
	}
	if let Some(a) = k.get(3) {
		if !a.is_ctx(0) || !a.constructed {
			return Err("attributes must be [0] IMPLICIT SET".into());
		}
		let mut v = Vec::new();
		let kids = a.children(true)?;
		for w in kids.windows(2) {
			if w[0].raw > w[1].raw {
				return Err("attributes SET OF not sorted".into());
			}
		}
		for at in kids {
			at.expect_univ(SEQUENCE, "Attribute")?;
			let ak = at.children(true)?;
			if ak.len() != 2 {
				return Err("Attribute must have 2 elements".into());
			}
			let oid = oid_of(&ak[0], "attribute type")?;
			v.push(CsrAttr {
				oid,
				values_raw: ak[1].raw.to_vec(),
				raw: at.raw.to_vec(),
			});
		}
		attrs = Some(v);
	}
	Ok(CsrView {
		cri_raw: cri.raw.to_vec(),
		outer_alg_raw: alg.raw.to_vec(),
		sig,
		version,
		subject,
		spki,
		attrs,
	})
}

/// Extensions inside an extensionRequest attribute's SET
pub fn parse_extension_request(values_raw: &[u8]) -> R<Vec<Ext>> {
	let t = parse_exact(values_raw, true)?;
	t.expect_univ(SET, "extensionRequest values")?;
	let k = t.children(true)?;
	if k.len() != 1 {
		return Err("extensionRequest must hold exactly one Extensions value".into());
	}
	// an extension request with zero extensions is tolerated by the grammar (SEQUENCE OF) only
	// with SIZE(1..MAX) in RFC 5280; rcgen never writes an empty one
	parse_extensions(&k[0])
}

// ---------------------------------------------------------------- CRL

#[derive(Clone, Debug)]
pub struct RevokedView {
	pub serial: Vec<u8>,
	pub time: TimeV,
	pub exts: Option<Vec<Ext>>,
}

#[derive(Clone, Debug)]
pub struct CrlView {
	pub tbs_raw: Vec<u8>,
	pub outer_alg_raw: Vec<u8>,
	pub sig: Vec<u8>,
	pub version: Option<u64>,
	pub inner_alg_raw: Vec<u8>,
	pub issuer: Name,
	pub this_update: TimeV,
	pub next_update: Option<TimeV>,
	/// None when the revokedCertificates field is absent
	pub revoked: Option<Vec<RevokedView>>,
	pub exts: Option<Vec<Ext>>,
}

pub fn parse_crl(der: &[u8]) -> R<CrlView> {
	let (tbs, alg, sig) = split_signed(der, true)?;
	let k = tbs.children(true)?;
	let mut i = 0;
	let mut version = None;
	if k.get(0).map_or(false, |t| t.is_univ(INTEGER)) {
		check_value(&k[0])?;
		if k[0].content.len() != 1 {
			return Err("CRL version out of range".into());
		}
		version = Some(k[0].content[0] as u64);
		i = 1;
	}
	if k.len() < i + 3 {
		return Err("TBSCertList too short".into());
	}
	parse_alg_id(&k[i])?;
	let inner_alg_raw = k[i].raw.to_vec();
	let issuer = parse_name(&k[i + 1])?;
	let this_update = parse_time(&k[i + 2])?;
	let mut j = i + 3;
	let mut next_update = None;
	if k.get(j).map_or(false, |t| t.is_univ(UTCTIME) || t.is_univ(GENTIME)) {
		next_update = Some(parse_time(&k[j])?);
		j += 1;
	}
	let mut revoked = None;
	if k.get(j).map_or(false, |t| t.is_univ(SEQUENCE)) {
		let mut v = Vec::new();
		for r in k[j].children(true)? {
			r.expect_univ(SEQUENCE, "revoked entry")?;
			let rk = r.children(true)?;
			if rk.len() < 2 || rk.len() > 3 {
				return Err("revoked entry must have 2 or 3 elements".into());
			}
			rk[0].expect_univ(INTEGER, "userCertificate")?;
			check_value(&rk[0])?;
			let time = parse_time(&rk[1])?;
			let exts = match rk.get(2) {
				Some(e) => Some(parse_extensions(e)?),
				None => None,
			};
			v.push(RevokedView {
				serial: rk[0].content.to_vec(),
				time,
				exts,
			});
		}
		revoked = Some(v);
		j += 1;
	}
	let mut exts = None;
	if let Some(t) = k.get(j) {
		if !t.is_ctx(0) || !t.constructed {
			return Err("crlExtensions must be [0] EXPLICIT".into());
		}
		let e = t.children(true)?;
		if e.len() != 1 {
			return Err("crlExtensions wrapper".into());
		}
		exts = Some(parse_extensions(&e[0])?);
		j += 1;
	}
	if j != k.len() {
		return Err("trailing elements in TBSCertList".into());
	}
	Ok(CrlView {
		tbs_raw: tbs.raw.to_vec(),
		outer_alg_raw: alg.raw.to_vec(),
		sig,
		version,
		inner_alg_raw,
		issuer,
		this_update,
		next_update,
		revoked,
		exts,
	})
}

/// DER INTEGER content -> big-endian magnitude without leading zeros (non-negative values)
pub fn int_magnitude(content: &[u8]) -> Vec<u8> {
	let mut b = content;
	while b.len() > 1 && b[0] == 0 {
		b = &b[1..];
	}
	if b == [0] {
		return Vec::new();
	}
	b.to_vec()
}

pub fn strip_zeros(b: &[u8]) -> Vec<u8> {
	let mut b = b;
	while !b.is_empty() && b[0] == 0 {
		b = &b[1..];
	}
	b.to_vec()
}
