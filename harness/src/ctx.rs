//! Monitoring context: counters, distinct-case accounting, samples, violation/replay records.

use std::collections::{BTreeMap, HashSet};
use std::path::PathBuf;
use std::sync::atomic::{AtomicU64, Ordering};
use std::sync::Mutex;

use crate::util::{jstr, Rng};

#[derive(Clone, Copy, Debug, PartialEq, Eq)]
pub enum Tier {
	Quick,
	Thorough,
}

/// Identifies a generated case so that `--replay` can regenerate it.
#[derive(Clone, Debug)]
pub struct CaseId {
	pub workload: String,
	pub seed: u64,
	pub index: u64,
}

impl CaseId {
	pub fn new(workload: &str, seed: u64, index: u64) -> Self {
		CaseId {
			workload: workload.to_string(),
			seed,
			index,
		}
	}
	pub fn rng(&self) -> Rng {
		Rng::derive(self.seed, &self.workload, self.index)
	}
}

struct Inner {
	counters: BTreeMap<String, u64>,
	distinct: HashSet<u64>,
	aux: HashSet<u64>,
	samples: Vec<String>,
	sample_seen: u64,
	viol_sigs: BTreeMap<String, u64>,
	viol_files: Vec<String>,
	known_hits: BTreeMap<String, u64>,
	notes: Vec<String>,
	inconclusive: Vec<String>,
}

pub struct Ctx {
	pub prop: String,
	pub backend: String,
	pub tier: Tier,
	pub seed: u64,
	pub out_dir: PathBuf,
	pub threads: usize,
	pub replay: Option<CaseId>,
	/// (signature, description) of known findings for this property
	pub known: Vec<(String, String)>,
	inner: Mutex<Inner>,
	start: std::time::Instant,
}

impl Ctx {
	pub fn new(
		prop: &str,
		backend: &str,
		tier: Tier,
		seed: u64,
		out_dir: PathBuf,
		threads: usize,
		known: Vec<(String, String)>,
		replay: Option<CaseId>,
	) -> Ctx {
		let _ = std::fs::create_dir_all(&out_dir);
		Ctx {
			prop: prop.to_string(),
			backend: backend.to_string(),
			tier,
			seed,
			out_dir,
			threads,
			replay,
			known,
			inner: Mutex::new(Inner {
				counters: BTreeMap::new(),
				distinct: HashSet::new(),
				aux: HashSet::new(),
				samples: Vec::new(),
				sample_seen: 0,
				viol_sigs: BTreeMap::new(),
				viol_files: Vec::new(),
				known_hits: BTreeMap::new(),
				notes: Vec::new(),
				inconclusive: Vec::new(),
			}),
			start: std::time::Instant::now(),
		}
	}

	pub fn quick(&self) -> bool {
		self.tier == Tier::Quick
	}

	/// pick a workload size by tier
	pub fn scale(&self, quick: u64, thorough: u64) -> u64 {
		let n = match self.tier {
			Tier::Quick => quick,
			Tier::Thorough => thorough,
		};
		// slow instrumented layers (valgrind, ASan) run the same workloads scaled down
		match std::env::var("VERIF_SCALE_DIV").ok().and_then(|s| s.parse::<u64>().ok()) {
			Some(d) if d > 1 => (n / d).max(1),
			_ => n,
		}
	}

	pub fn count(&self, key: &str) {
		self.count_n(key, 1)
	}
	pub fn count_n(&self, key: &str, n: u64) {
		let mut g = self.inner.lock().unwrap();
		*g.counters.entry(key.to_string()).or_insert(0) += n;
	}
	pub fn get_count(&self, key: &str) -> u64 {
		*self.inner.lock().unwrap().counters.get(key).unwrap_or(&0)
	}
	/// record a distinct non-trivial case by hash
	pub fn distinct(&self, h: u64) {
		self.inner.lock().unwrap().distinct.insert(h);
	}
	pub fn distinct_many(&self, hs: impl IntoIterator<Item = u64>) {
		let mut g = self.inner.lock().unwrap();
		g.distinct.extend(hs);
	}
	/// secondary distinct-set (e.g. distinct states reached), reported as `aux_distinct`
	pub fn aux_many(&self, hs: impl IntoIterator<Item = u64>) {
		let mut g = self.inner.lock().unwrap();
		g.aux.extend(hs);
	}
	pub fn distinct_len(&self) -> usize {
		self.inner.lock().unwrap().distinct.len()
	}
	/// keep a handful of expanded cases (first three, then a sparse selection)
	pub fn sample(&self, s: impl FnOnce() -> String) {
		let mut g = self.inner.lock().unwrap();
		g.sample_seen += 1;
		let n = g.sample_seen;
		if g.samples.len() < 3 || (g.samples.len() < 8 && n.is_power_of_two() && n >= 64) {
			let v = s();
			g.samples.push(v);
		}
	}
	pub fn note(&self, s: String) {
		let mut g = self.inner.lock().unwrap();
		if g.notes.len() < 200 {
			g.notes.push(s);
		}
	}
	pub fn inconclusive(&self, reason: &str) {
		println!("INCONCLUSIVE property={} reason={}", self.prop, reason);
		self.inner.lock().unwrap().inconclusive.push(reason.to_string());
	}

	/// Report a violation. `sig` is a stable signature (monitor + failing aspect) used for
	/// de-duplication and for matching against the known-findings file.
	pub fn violation(&self, sig: &str, case: &CaseId, case_text: &str, detail: &str) {
		if let Some((_, desc)) = self.known.iter().find(|(s, _)| s == sig) {
			let mut g = self.inner.lock().unwrap();
			let e = g.known_hits.entry(sig.to_string()).or_insert(0);
			if *e == 0 {
				println!("KNOWN-FINDING: property={} sig={} {}", self.prop, sig, desc);
			}
			*e += 1;
			return;
		}
		let mut g = self.inner.lock().unwrap();
		let total: u64 = g.viol_sigs.values().sum();
		let e = g.viol_sigs.entry(sig.to_string()).or_insert(0);
		*e += 1;
		let per_sig = *e;
		if per_sig > 3 || total > 60 {
			return;
		}
		let dir = self.out_dir.join("violations");
		let _ = std::fs::create_dir_all(&dir);
		let n = g.viol_files.len();
		let path = dir.join(format!("{}-{}-{}.json", self.prop, self.backend, n));
		let body = format!(
			"{{\"property\":{},\"backend\":{},\"sig\":{},\"workload\":{},\"seed\":{},\"index\":{},\"case\":{},\"detail\":{}}}\n",
			jstr(&self.prop),
			jstr(&self.backend),
			jstr(sig),
			jstr(&case.workload),
			case.seed,
			case.index,
			jstr(case_text),
			jstr(detail)
		);
		let _ = std::fs::write(&path, body);
		let p = path.to_string_lossy().to_string();
		println!("VIOLATION property={} replay={}", self.prop, p);
		println!("  sig={} detail={}", sig, crate::util::clip(detail, 600));
		g.viol_files.push(p);
	}

	pub fn violations(&self) -> u64 {
		self.inner.lock().unwrap().viol_sigs.values().sum()
	}

	/// Write the per-process summary consumed by ./check; returns the process exit code.
	pub fn finish(&self, rule: &str, exhaustive_note: &str) -> i32 {
		let g = self.inner.lock().unwrap();
		let mut s = String::new();
		s.push('{');
		s.push_str(&format!("\"property\":{},", jstr(&self.prop)));
		s.push_str(&format!("\"backend\":{},", jstr(&self.backend)));
		s.push_str(&format!(
			"\"tier\":{},",
			jstr(if self.tier == Tier::Quick { "quick" } else { "thorough" })
		));
		s.push_str(&format!("\"seed\":{},", self.seed));
		s.push_str(&format!("\"threads\":{},", self.threads));
		s.push_str(&format!("\"wall_s\":{:.3},", self.start.elapsed().as_secs_f64()));
		s.push_str(&format!("\"rule\":{},", jstr(rule)));
		s.push_str(&format!("\"exhaustive_note\":{},", jstr(exhaustive_note)));
		s.push_str("\"counters\":{");
		let mut first = true;
		for (k, v) in &g.counters {
			if !first {
				s.push(',');
			}
			first = false;
			s.push_str(&format!("{}:{}", jstr(k), v));
		}
		s.push_str("},");
		s.push_str(&format!("\"distinct\":{},", g.distinct.len()));
		s.push_str(&format!("\"aux_distinct\":{},", g.aux.len()));
		s.push_str("\"samples\":[");
		s.push_str(&g.samples.iter().map(|x| jstr(x)).collect::<Vec<_>>().join(","));
		s.push_str("],\"notes\":[");
		s.push_str(&g.notes.iter().map(|x| jstr(x)).collect::<Vec<_>>().join(","));
		s.push_str("],\"violation_sigs\":{");
		s.push_str(
			&g.viol_sigs
				.iter()
				.map(|(k, v)| format!("{}:{}", jstr(k), v))
				.collect::<Vec<_>>()
				.join(","),
		);
		s.push_str("},\"violation_files\":[");
		s.push_str(&g.viol_files.iter().map(|x| jstr(x)).collect::<Vec<_>>().join(","));
		s.push_str("],\"known_hits\":{");
		s.push_str(
			&g.known_hits
				.iter()
				.map(|(k, v)| format!("{}:{}", jstr(k), v))
				.collect::<Vec<_>>()
				.join(","),
		);
		s.push_str("},\"inconclusive\":[");
		s.push_str(&g.inconclusive.iter().map(|x| jstr(x)).collect::<Vec<_>>().join(","));
		s.push_str("]}\n");
		// distinct hashes, so that ./check can union across processes
		let mut hb = Vec::with_capacity(g.distinct.len() * 8);
		if g.distinct.len() <= 4_000_000 {
			for h in &g.distinct {
				hb.extend_from_slice(&h.to_le_bytes());
			}
		}
		let _ = std::fs::write(self.out_dir.join("distinct.bin"), hb);
		let _ = std::fs::write(self.out_dir.join("summary.json"), &s);
		if !g.viol_sigs.is_empty() {
			1
		} else if !g.inconclusive.is_empty() {
			3
		} else {
			0
		}
	}
}

/// Run `f(i)` for i in 0..n on `threads` worker threads (dynamic distribution).
pub fn par_for(n: u64, threads: usize, f: impl Fn(u64) + Sync) {
	let next = AtomicU64::new(0);
	let threads = threads.max(1);
	std::thread::scope(|s| {
		for _ in 0..threads {
			// generous stacks: instrumented builds (coverage, sanitizers) have much larger frames
			let _ = std::thread::Builder::new().stack_size(64 << 20).spawn_scoped(s, || loop {
				let i = next.fetch_add(1, Ordering::Relaxed);
				if i >= n {
					break;
				}
				f(i);
			});
		}
	});
}

/// Extract `"key":<value>` from a flat JSON object produced by `Ctx::violation` (for --replay).
pub fn json_field(text: &str, key: &str) -> Option<String> {
	let pat = format!("\"{}\":", key);
	let i = text.find(&pat)? + pat.len();
	let rest = &text[i..];
	if let Some(stripped) = rest.strip_prefix('"') {
		let mut out = String::new();
		let mut chars = stripped.chars();
		while let Some(c) = chars.next() {
			match c {
				'\\' => match chars.next()? {
					'n' => out.push('\n'),
					't' => out.push('\t'),
					'r' => out.push('\r'),
					'u' => {
						let h: String = (0..4).filter_map(|_| chars.next()).collect();
						out.push(char::from_u32(u32::from_str_radix(&h, 16).ok()?)?);
					},
					c => out.push(c),
				},
				'"' => return Some(out),
				c => out.push(c),
			}
		}
		None
	} else {
		let end = rest.find(|c: char| c == ',' || c == '}').unwrap_or(rest.len());
		Some(rest[..end].trim().to_string())
	}
}

pub fn load_replay(path: &str) -> Option<CaseId> {
	let t = std::fs::read_to_string(path).ok()?;
	Some(CaseId {
		workload: json_field(&t, "workload")?,
		seed: json_field(&t, "seed")?.parse().ok()?,
		index: json_field(&t, "index")?.parse().ok()?,
	})
}

/// Parse KNOWN_FINDINGS.txt: lines `known: property=<ID> sig=<sig> <description>`
pub fn load_known(path: &str, prop: &str) -> Vec<(String, String)> {
	let mut out = Vec::new();
	if let Ok(t) = std::fs::read_to_string(path) {
		for line in t.lines() {
			let line = line.trim();
			if let Some(rest) = line.strip_prefix("known:") {
				let mut it = rest.trim().splitn(3, ' ');
				let p = it.next().unwrap_or("");
				let s = it.next().unwrap_or("");
				let d = it.next().unwrap_or("");
				if p == format!("property={}", prop) {
					if let Some(sig) = s.strip_prefix("sig=") {
						out.push((sig.to_string(), d.to_string()));
					}
				}
			}
		}
	}
	out
}
